"""C08 bounded stand-in: functional update interfaces change only what they address.

Reference-model contract on the REAL package.  The model of a Frame is (row labels, column labels, per-column python
cell lists, per-column dtypes, name) -- see c04_selection.FrameModel; every update is described by JSON-able specs
(key specs shared with C04, value specs defined here).  For each evaluated update the stand-in checks
  * the result equals a copy of the original with exactly the addressed cells replaced / rows-columns removed /
    True exactly at the addressed cells / only the addressed dtypes, labels, names changed,
  * labels, order, name are preserved and every column that receives no value keeps its exact dtype,
  * bounded.common.snapshot(original) is identical before and after the call and the result is a new object.

Sub-areas (register each):  run_assign, run_assign_labelled, run_drop_mask, run_other (astype / relabel / rename / insert_*).
"""
from __future__ import annotations
import itertools

import numpy as np

from .common import Report, layouts_dtype_safe, snapshot
from . import c04_selection as S
from .c04_selection import (FrameModel, SeriesModel, col_array, model_positional, build_positional, model_label, build_label,
                            index_labels, nl, arr_cells, cell_eq, spec_kind, all_slices, int_lists, DT)

PID = 'C08'
DRY = False      # enumeration-size measurement only (set by hand): evaluate nothing
NULL = ('null',)
NAN = float('nan')


# ---------------------------------------------------------------------------------------------
# observation

def block_columns(blocks):
    for b in blocks:
        if b.ndim == 1:
            yield b
        else:
            for j in range(b.shape[1]):
                yield b[:, j]


_DTS = {}


def dts(dtype):
    s_ = _DTS.get(dtype)
    if s_ is None:
        s_ = _DTS[dtype] = str(dtype)
    return s_


def obs_frame(r):
    cols = list(block_columns(r._blocks._blocks))
    return dict(rows=index_labels(r.index), cols=index_labels(r.columns), data=[arr_cells(c) for c in cols],
                dtypes=[dts(c.dtype) for c in cols], name=r.name, shape=tuple(r.shape))


def obs_series(r):
    return dict(rows=index_labels(r.index), data=arr_cells(r.values), dtype=dts(r.values.dtype), name=r.name)


def model_dtypes(fm):
    d = getattr(fm, '_dts', None)
    if d is None:
        d = fm._dts = [str(np.dtype(DT[k])) for k in fm.kinds]
    return d


def fingerprint(c):
    """cheap per-call stand-in for bounded.common.snapshot: raw bytes (object arrays: the element pointers), dtype, shape and writeable flag of
    every array of the container plus names.  All cells used here are immutable python objects, so an unchanged fingerprint implies an unchanged
    snapshot; the full snapshot is compared whenever the fingerprint differs and once more at the end of every case."""
    import static_frame as sf
    def a(x):
        return (x.tobytes(), x.dtype.str, x.shape, x.flags.writeable)
    if isinstance(c, sf.Frame):
        return (tuple(a(b) for b in c._blocks._blocks), a(c.index.values), a(c.columns.values), c.name, c.index.name, c.columns.name, c.shape, id(c._index), id(c._columns))
    return (a(c.values), a(c.index.values), c.name, c.index.name, id(c._index))


class Orig:
    """the original container with its snapshot (taken once) and fingerprint"""
    def __init__(self, c):
        self.c, self.snap, self.fp = c, snapshot(c), fingerprint(c)

    def mutated(self):
        if fingerprint(self.c) == self.fp:
            return False
        return snapshot(self.c) != self.snap

    def final_ok(self):
        return snapshot(self.c) == self.snap


# ---------------------------------------------------------------------------------------------
# key handling

def key_class(spec):
    """class of a key used in failure keys: separates the key shapes that take different code paths"""
    if spec is None or spec[0] == 'null':
        return 'all'
    t = spec[0]
    if t == 'iloc':
        return 'ILoc.' + key_class(spec[1])
    if t == 'slice':
        a, b, c = spec[1], spec[2], spec[3]
        if c is not None and c < 0:
            return 'negstep-slice' + ('-negbound' if ((a is not None and a < 0) or (b is not None and b < 0)) else '')
        return 'slice'
    if t in ('ilist', 'iarr'):
        ps = list(spec[1])
        if not ps:
            return 'none'
        if any(p < 0 for p in ps):
            return 'int-list-negmember'
        if ps != sorted(ps):
            return 'int-list-unordered'
        return 'int-list'
    return spec_kind(spec)


def resolve(spec, n, ax, route):
    """-> ('scalar', p) | ('multi', ps, flags) | ('raise', ..) | ('skip', ..)"""
    if spec is None:
        return ('multi', list(range(n)), set())
    if route == 'iloc':
        return model_positional(spec, n)
    return model_label(spec, ax)


def real_key(spec, ax, route):
    return build_positional(spec) if route == 'iloc' else build_label(spec, ax)


def frame_key(fm, route, rk, ck, iface=None):
    if route == 'getitem':
        return real_key(ck, fm.cax, 'loc')
    if ck is None:
        k = real_key(rk, fm.rax, route)
        if isinstance(k, tuple):
            # a bare tuple is the two-axis syntax; a hierarchical row label needs (label, :) -- which for drop would also drop every column
            return None if iface == 'drop' else (k, slice(None))
        return k
    return (real_key(rk, fm.rax, route), real_key(ck, fm.cax, route))


def neutral_key(iface, route):
    """the key of the other axis that leaves it alone: everything for assign / mask, nothing for drop"""
    if iface == 'drop':
        return ('ilist', []) if route == 'iloc' else ('iloc', ('ilist', []))     # ILoc[[]]: no label resolution involved
    return NULL


def positions(m):
    """(list of positions in key order, is_scalar)"""
    if m[0] == 'scalar':
        return [m[1]], True
    return list(m[1]), False


# ---------------------------------------------------------------------------------------------
# value specs for assign.  build_value -> (real value object or function, kwargs, [alternative cell maps])
# a cell map is {(i, j): new cell}; a result is accepted when it matches one alternative (the pairing of an unlabelled
# array with a non-ascending key is not fixed by the property: key order and ascending order are both accepted)

ELEMS = {'int': -7, 'float': 9.25, 'str': 'E', 'none': None, 'bool': True, 'nan': NAN}
X_LABEL = {'str': 'zz', 'int': 77, 'auto': 55}


def _arr_vals(dk, count, base=900):
    if dk == 'i':
        return [base + k for k in range(count)]
    if dk == 'f':
        return [base + k + 0.5 for k in range(count)]
    if dk == 'U':
        return [f'w{k}' for k in range(count)]
    if dk == 'O':
        return [(None, f'm{k}', base + k)[k % 3] for k in range(count)]
    raise ValueError(dk)


def _mk_array(vals, dk, shape=None):
    if dk == 'O':
        a = np.empty(len(vals), dtype=object)
        for i, v in enumerate(vals):
            a[i] = v
    else:
        a = np.array(vals, dtype={'i': np.int64, 'f': np.float64, 'U': '<U3'}[dk])
    return a.reshape(shape) if shape else a


def _orders(sel, variant, xlab):
    """label order variants for a labelled value; entries are positions or the foreign label marker 'X'"""
    if variant == 'same':
        return list(sel)
    if variant == 'rev':
        return list(sel)[::-1]
    if variant == 'partial':
        return list(sel)[1:]
    if variant == 'partial+foreign':
        return list(sel)[::2] + ['X']
    if variant == 'foreign':
        return ['X']
    if variant == 'rot':
        return list(sel)[1:] + list(sel)[:1]
    raise ValueError(variant)


def _labels_for(order, ax):
    return [X_LABEL[ax.kind] if p == 'X' else ax.raw[p] for p in order]


def _index_for(order, ax):
    import static_frame as sf
    return sf.Index(_labels_for(order, ax))


def build_value(fm, R, rs, C, cs, vspec):
    """None when the value shape does not apply to this target"""
    import static_frame as sf
    t = vspec[0]
    distinct = len(set(R)) == len(R) and len(set(C)) == len(C)
    Ra, Ca = sorted(R), sorted(C)
    if t == 'elem':
        e = ELEMS[vspec[1]]
        return e, {}, [{(i, j): e for i in R for j in C}]
    if not distinct or not R or not C:
        return None
    if t in ('arr1', 'tuple', 'list'):
        dk = vspec[1] if t == 'arr1' else 'i'
        if rs and cs:
            return None
        if rs or cs:
            seq = C if rs else R
            vals = _arr_vals(dk, len(seq))
            alts = []
            for order in (seq, sorted(seq)):
                alts.append({((R[0], p) if rs else (p, C[0])): v for p, v in zip(order, vals)})
        else:      # 1-D array broadcast over the rows of a 2-D target
            vals = _arr_vals(dk, len(C))
            alts = [{(i, p): v for i in R for p, v in zip(order, vals)} for order in (C, Ca)]
        value = _mk_array(vals, dk) if t == 'arr1' else (tuple(vals) if t == 'tuple' else list(vals))
        return value, {}, alts
    if t == 'arr2':
        if rs or cs:
            return None
        dk = vspec[1]
        vals = _arr_vals(dk, len(R) * len(C))
        alts = []
        for ro in (R, Ra):
            for co in (C, Ca):
                alts.append({(i, j): vals[a * len(C) + b] for a, i in enumerate(ro) for b, j in enumerate(co)})
        return _mk_array(vals, dk, (len(R), len(C))), {}, alts
    if t == 'series':
        # row target: labelled by column labels; column target: labelled by row labels
        if rs == cs:
            return None
        _, variant, dk, fill = vspec
        sel, ax = (C, fm.cax) if rs else (R, fm.rax)
        if ax.kind not in X_LABEL:
            return None
        order = _orders(sel, variant, None)
        if not order:
            return None
        vals = {p: v for p, v in zip(order, _arr_vals(dk, len(order), 800))}
        value = sf.Series(_mk_array([vals[p] for p in order], dk), index=_index_for(order, ax))
        kw = {} if fill is None else dict(fill_value=fill)
        fv = NAN if fill is None else fill
        cm = {}
        for p in sel:
            cm[(R[0], p) if rs else (p, C[0])] = vals.get(p, fv)
        return value, kw, [cm]
    if t == 'frame':
        if rs or cs:
            return None
        _, rvar, cvar, dk, fill = vspec
        if fm.rax.kind not in X_LABEL or fm.cax.kind not in X_LABEL:
            return None
        ro, co = _orders(R, rvar, None), _orders(C, cvar, None)
        if not ro or not co:
            return None
        flat = _arr_vals(dk, len(ro) * len(co), 800)
        vals = {(p, q): flat[a * len(co) + b] for a, p in enumerate(ro) for b, q in enumerate(co)}
        arr = _mk_array(flat, dk, (len(ro), len(co)))
        value = sf.Frame(arr, index=_index_for(ro, fm.rax), columns=_index_for(co, fm.cax))
        kw = {} if fill is None else dict(fill_value=fill)
        fv = NAN if fill is None else fill
        return value, kw, [{(i, j): vals.get((i, j), fv) for i in R for j in C}]
    if t == 'apply':
        how = vspec[1]
        if how == 'rev':      # a labelled selection handed back in reverse order: alignment by label makes this the identity
            if rs and cs:
                return (lambda x: x), {}, [{}]
            if rs or cs:
                return (lambda x: x.iloc[::-1]), {}, [{}]
            return (lambda x: x.iloc[::-1, ::-1]), {}, [{}]
        if how == 'dropfirst':   # the first selected label is missing from the value: those cells get the fill value
            if rs and cs:
                return None
            if rs or cs:
                first = C[0] if rs else R[0]
                return (lambda x: x.iloc[1:]), {}, [{((R[0], first) if rs else (first, C[0])): NAN}]
            if len(R) < 2 or len(C) < 2:
                return None
            cm = {(i, j): NAN for i in R for j in C if i == R[0] or j == C[0]}
            return (lambda x: x.iloc[1:, 1:]), {}, [cm]
        if how == 'neg':
            if not all(fm.kinds[j] == 'i' for j in C):
                return None
            return (lambda x: -x), {}, [{(i, j): -fm.data[j][i] for i in R for j in C}]
    raise ValueError(vspec)


def value_specs(rs, cs, tier='quick'):
    """value shapes applicable to a target (rs / cs: the row / column key is a scalar)"""
    out = [('elem', 'int'), ('elem', 'str'), ('elem', 'none'), ('elem', 'float')]
    if rs and cs:
        return out + [('elem', 'bool'), ('apply', 'neg'), ('apply', 'rev')]
    if rs or cs:
        out += [('arr1', 'i'), ('arr1', 'f'), ('arr1', 'O'), ('tuple',), ('list',),
                ('series', 'same', 'i', None), ('series', 'rev', 'U', None), ('series', 'partial', 'i', None), ('series', 'partial+foreign', 'f', -5),
                ('series', 'foreign', 'i', None), ('series', 'rot', 'i', 0),
                ('apply', 'rev'), ('apply', 'dropfirst'), ('apply', 'neg')]
        return out
    out += [('arr2', 'i'), ('arr2', 'f'), ('arr2', 'U'), ('arr1', 'i'), ('tuple',),
            ('frame', 'same', 'rev', 'i', None), ('frame', 'rev', 'partial', 'f', None), ('frame', 'partial+foreign', 'same', 'i', -5),
            ('frame', 'rot', 'rot', 'U', None), ('frame', 'foreign', 'same', 'i', None),
            ('apply', 'rev'), ('apply', 'dropfirst'), ('apply', 'neg')]
    return out


# ---------------------------------------------------------------------------------------------
# comparison helpers

def cmp_frame(o, rows, cols, data, dtypes, name, exact_cols=None, area=''):
    """-> None or symptom.  dtypes[j] None = not demanded; exact cells always"""
    if o['rows'] != rows:
        return 'row-labels-changed'
    if o['cols'] != cols:
        return 'column-labels-changed'
    if o['shape'] != (len(rows), len(cols)) or len(o['data']) != len(cols):
        return 'shape'
    for j in range(len(cols)):
        if len(o['data'][j]) != len(data[j]) or not all(cell_eq(a, b) for a, b in zip(o['data'][j], data[j])):
            return 'wrong-cells' if (exact_cols is None or j not in exact_cols) else 'unaddressed-column-changed'
    for j in range(len(cols)):
        if dtypes[j] is not None and o['dtypes'][j] != dtypes[j]:
            return 'unaddressed-column-dtype-changed' if (exact_cols is None or j in exact_cols) else 'dtype'
    if name is not ... and o['name'] != name:
        return 'name-changed'
    return None


def outcome(ok, key=None, what=None, nontrivial=True, how='ok'):
    return (ok, key, what, nontrivial, how)


def run_op(op, original, snap):
    """execute the operation under test; -> (result, exception, mutated?)"""
    try:
        r, exc = op(), None
    except Exception as e:
        r, exc = None, e
    mutated = snap.mutated() if isinstance(snap, Orig) else snapshot(original) != snap
    return r, exc, mutated


# ---------------------------------------------------------------------------------------------
# Frame: assign / drop / mask / masked_array

def eval_frame_update(f, snap, fm, iface, route, rk, ck, vspec=None, blame=True):
    """iface: assign / drop / mask / masked_array; route: iloc / loc / getitem"""
    if DRY:
        return outcome(True), None
    nr, nc = fm.nrows, len(fm.kinds)
    rm = resolve(rk, nr, fm.rax, route)
    cm = resolve(ck, nc, fm.cax, 'loc' if route == 'getitem' else route)
    if rm[0] in ('raise', 'skip') or cm[0] in ('raise', 'skip'):
        return outcome(True, nontrivial=False, how='skip'), None
    R, rs = positions(rm)
    C, cs = positions(cm)
    flags = (rm[2] if rm[0] == 'multi' else set()) | (cm[2] if cm[0] == 'multi' else set())
    key = frame_key(fm, route, rk, ck, iface)
    if key is None:
        return outcome(True, nontrivial=False, how='skip'), None
    node = getattr(f, iface)
    sel = (lambda: node.iloc[key]) if route == 'iloc' else (lambda: node.loc[key]) if route == 'loc' else (lambda: node[key])
    kcls = f'rows={key_class(rk)},cols={key_class(ck)}'
    area = f'{PID}:Frame.{iface}.{"iloc" if route == "iloc" else "loc"}'
    alts = None
    if iface == 'assign':
        bv = build_value(fm, R, rs, C, cs, vspec)
        if bv is None:
            return outcome(True, nontrivial=False, how='skip'), None
        value, kw, alts = bv
        if vspec[0] == 'apply':
            op = lambda: sel().apply(value, **kw)
        else:
            op = lambda: sel()(value, **kw)
        vtxt = None if vspec[0] == 'elem' else vspec[0] if vspec[0] != 'apply' else f'apply-{vspec[1]}'
    else:
        op = sel
        vtxt = None
    r, exc, mutated = run_op(op, f, snap)
    res = None
    if mutated:
        res = outcome(False, f'{area}:original-mutated', f'snapshot of the original Frame changed by {iface}')
    elif exc is not None:
        if 'repeats' in flags:
            return outcome(True, nontrivial=False, how='repeat-rejected'), None
        if iface == 'assign' and vspec[0] == 'frame' and 'foreign' in (vspec[1], vspec[2]):
            # a Frame value sharing no label with the target on one axis: Frame.reindex (TypeBlocks.resize_blocks) fails when the other axis is reordered
            res = outcome(False, f'{PID}:Frame.assign:value=frame-disjoint-labels:raises-{type(exc).__name__}', f'assign of a Frame value without common labels on one axis raised {type(exc).__name__}: {exc!s:.140}')
        elif iface == 'drop' and ck is not None and len(set(C)) == nc:
            res = outcome(False, f'{PID}:Frame.drop:all-columns-dropped-with-row-key-raises-{type(exc).__name__}', f'drop of every column together with a row key raised {type(exc).__name__}: {exc!s:.140}')
        else:
            res = outcome(False, f'{area}:raises-{type(exc).__name__}:{kcls}' + (f':value={vtxt}' if vtxt else ''), f'{iface} raised {type(exc).__name__}: {exc!s:.140}')
    else:
        import static_frame as sf
        sym = None
        dts = model_dtypes(fm)
        if iface == 'masked_array':
            if not isinstance(r, np.ma.MaskedArray) or r.shape != (nr, nc):
                sym = 'not-a-masked-array'
            else:
                want = [[(i in R and j in C) for j in range(nc)] for i in range(nr)]
                got = np.ma.getmaskarray(r).tolist()
                if got != want:
                    sym = 'wrong-mask'
                else:
                    dat = np.ma.getdata(r)
                    if not all(cell_eq(dat[i, j], fm.data[j][i]) for i in range(nr) for j in range(nc)):
                        sym = 'wrong-data'
        elif not isinstance(r, sf.Frame):
            sym = f'returns-{type(r).__name__}'
        elif r is f:
            sym = 'returns-self'
        else:
            o = obs_frame(r)
            if iface == 'assign':
                Rs, Cs = set(R), set(C)
                sym = 'no-alternative'
                receives = Cs if R else set()
                for cmap in alts:
                    data = [[cmap.get((i, j), fm.data[j][i]) for i in range(nr)] for j in range(nc)]
                    touched = {j for (_, j) in cmap}
                    want_dt = [None if j in receives else dts[j] for j in range(nc)]
                    s_ = cmp_frame(o, fm.rax.norm, fm.cax.norm, data, want_dt, fm.name, exact_cols=set(range(nc)) - receives)
                    if s_ is None:
                        sym = None
                        break
                    sym = s_
            elif iface == 'drop':
                keep_r = [i for i in range(nr) if i not in set(R)] if rk is not None else list(range(nr))
                keep_c = [j for j in range(nc) if j not in set(C)] if ck is not None else list(range(nc))
                data = [[fm.data[j][i] for i in keep_r] for j in keep_c]
                sym = cmp_frame(o, [fm.rax.norm[i] for i in keep_r], [fm.cax.norm[j] for j in keep_c], data, [dts[j] for j in keep_c], fm.name,
                                exact_cols=set(range(len(keep_c))))
            elif iface == 'mask':
                data = [[(i in R and j in C) for i in range(nr)] for j in range(nc)]
                sym = cmp_frame(o, fm.rax.norm, fm.cax.norm, data, ['bool'] * nc, ...)
                if sym == 'wrong-cells':
                    sym = 'wrong-mask'
        if sym is not None and iface == 'assign' and not (R and C) and sym == 'unaddressed-column-dtype-changed':
            res = outcome(False, f'{area}:dtype-changed-though-no-cell-addressed', f'assign with a key addressing no cell changed column dtypes: {o["dtypes"]} (value {vspec})')
        elif sym is not None:
            res = outcome(False, f'{area}:{sym}:{kcls}' + (f':value={vtxt}' if vtxt else ''),
                          f'{iface} result differs from the model ({sym}); R={R} C={C} observed {str(obs_frame(r) if hasattr(r, "_blocks") else r)[:300]}')
    if res is None:
        return outcome(True, nontrivial=bool(R) and bool(C)), None
    if not blame:
        return res, None
    if iface == 'assign' and vspec[0] != 'elem' and res[4] != 'skip':
        # does the plain element value fail on the same key?  then the key handling, not the value shape, is the defect class
        r0, _ = eval_frame_update(f, snap, fm, iface, route, rk, ck, ('elem', 'int'), blame=False)
        if not r0[0]:
            res, vspec = r0, ('elem', 'int')
            over0 = dict(v=['elem', 'int'])
        else:
            over0 = None
    else:
        over0 = None
    if ck is None or route == 'getitem' or rk is None:
        return res, over0
    # attribute the failure to one axis when the single-axis variant fails on its own
    neutral = neutral_key(iface, route)
    if ck != neutral:
        r2, _ = eval_frame_update(f, snap, fm, iface, route, neutral, ck, vspec, blame=False)
        if not r2[0] and r2[4] != 'skip':
            return r2, dict(over0 or {}, rk=neutral)
    if rk != neutral:
        r1, _ = eval_frame_update(f, snap, fm, iface, route, rk, neutral, vspec, blame=False)
        if not r1[0] and r1[4] != 'skip':
            return r1, dict(over0 or {}, ck=neutral)
    return res, over0


# ---------------------------------------------------------------------------------------------
# Frame.assign.bloc

def eval_frame_bloc(f, snap, fm, kspec, vspec):
    """kspec as in c04 bloc: ('arr', bits) | ('frame', row refs, col refs, bits); vspec: elem / arr2 / series / frame / apply"""
    import static_frame as sf
    if DRY:
        return outcome(True)
    nr, nc = fm.nrows, len(fm.kinds)
    if kspec[0] == 'arr':
        bits = kspec[1]
        key = np.array(bits, dtype=bool).reshape(nr, nc)
        want = [(i, j) for j in range(nc) for i in range(nr) if bits[i * nc + j]]
    else:
        _, rrefs, crefs, bits = kspec
        rl = [S._lab(fm.rax, r_) for r_ in rrefs]
        cl = [S._lab(fm.cax, c_) for c_ in crefs]
        key = sf.Frame(np.array(bits, dtype=bool).reshape(len(rrefs), len(crefs)), index=sf.Index(rl), columns=sf.Index(cl))
        ws = set()
        for a, r_ in enumerate(rrefs):
            for b, c_ in enumerate(crefs):
                if bits[a * len(crefs) + b] and not S._is_absent(r_) and not S._is_absent(c_):
                    ws.add((r_, c_))
        want = [(i, j) for j in range(nc) for i in range(nr) if (i, j) in ws]
    t = vspec[0]
    kw = {}
    if t == 'elem':
        value = ELEMS[vspec[1]]
        cmap = {c: value for c in want}
    elif t == 'arr2':
        vals = _arr_vals(vspec[1], nr * nc)
        value = _mk_array(vals, vspec[1], (nr, nc))
        cmap = {(i, j): vals[i * nc + j] for (i, j) in want}
    elif t == 'series':
        # Series keyed by (row label, column label) tuples for a reordered subset of the addressed cells
        cells = list(want)[::-1][:: (2 if vspec[1] == 'partial' else 1)]
        if not cells:
            return outcome(True, nontrivial=False, how='skip')
        vals = _arr_vals(vspec[2], len(cells), 800)
        idx = sf.Index([(fm.rax.raw[i], fm.cax.raw[j]) for (i, j) in cells], dtype=object)
        value = sf.Series(_mk_array(vals, vspec[2]), index=idx)
        if vspec[1] == 'partial':
            # cells addressed by the key but absent from the value: outcome not fixed by the property -> restrict the key to the cells given
            return outcome(True, nontrivial=False, how='skip')
        cmap = {c: v for c, v in zip(cells, vals)}
    elif t == 'frame':
        ro = _orders(list(range(nr)), vspec[1], None)
        co = _orders(list(range(nc)), vspec[2], None)
        if not ro or not co or fm.rax.kind not in X_LABEL or fm.cax.kind not in X_LABEL:
            return outcome(True, nontrivial=False, how='skip')
        flat = _arr_vals(vspec[3], len(ro) * len(co), 800)
        vals = {(p, q): flat[a * len(co) + b] for a, p in enumerate(ro) for b, q in enumerate(co)}
        value = sf.Frame(_mk_array(flat, vspec[3], (len(ro), len(co))), index=_index_for(ro, fm.rax), columns=_index_for(co, fm.cax))
        # cells whose label is missing from the value keep their content
        cmap = {c: vals[c] for c in want if c in vals}
    elif t == 'apply':
        value = (lambda x: x.iloc[::-1]) if vspec[1] == 'rev' else (lambda x: -x)
        if vspec[1] == 'neg':
            if not want or not all(fm.kinds[j] == 'i' for (_, j) in want):
                return outcome(True, nontrivial=False, how='skip')
            cmap = {(i, j): -fm.data[j][i] for (i, j) in want}
        else:
            cmap = {}
    else:
        raise ValueError(vspec)
    node = f.assign.bloc[key]
    op = (lambda: node.apply(value)) if t == 'apply' else (lambda: node(value, **kw))
    key_before = key.copy() if isinstance(key, np.ndarray) else None
    r, exc, mutated = run_op(op, f, snap)
    area = f'{PID}:Frame.assign.bloc'
    if key_before is not None and (key.shape != key_before.shape or (key != key_before).any()):
        # "leave the original as it was" covers what the caller handed in: a Boolean key array is an input, not scratch space
        return outcome(False, f'{area}:caller-key-array-mutated', f'assign.bloc wrote into the Boolean key array supplied by the caller: {key_before.tolist()} -> {key.tolist()}')
    ktxt = kspec[0]
    if ktxt == 'frame' and (all(S._is_absent(c_) for c_ in kspec[2]) or all(S._is_absent(r_) for r_ in kspec[1])):
        ktxt = 'frame-disjoint-labels'
    kcls = f'key={ktxt}' + ('' if ktxt == 'frame-disjoint-labels' else f':value={t}' + (f'-{vspec[1]}' if t == 'apply' else ''))
    if mutated:
        return outcome(False, f'{area}:original-mutated', 'snapshot of the original Frame changed by assign.bloc')
    if exc is not None:
        return outcome(False, f'{area}:raises-{type(exc).__name__}:{kcls}', f'assign.bloc raised {type(exc).__name__}: {exc!s:.140}')
    if not isinstance(r, sf.Frame) or r is f:
        return outcome(False, f'{area}:not-a-new-Frame:{kcls}', f'assign.bloc returned {type(r).__name__}')
    o = obs_frame(r)
    dts = model_dtypes(fm)
    receives = {j for (_, j) in cmap} if t != 'apply' or vspec[1] == 'neg' else {j for (_, j) in want}
    data = [[cmap.get((i, j), fm.data[j][i]) for i in range(nr)] for j in range(nc)]
    sym = cmp_frame(o, fm.rax.norm, fm.cax.norm, data, [None if j in receives else dts[j] for j in range(nc)], fm.name, exact_cols=set(range(nc)) - receives)
    if sym == 'unaddressed-column-dtype-changed':
        # one root cause whatever key / value: the whole 2-D block that holds an addressed cell is cast
        return outcome(False, f'{area}:{sym}', f'assign.bloc changed the dtype of a column that received no value; cells={want} dtypes {o["dtypes"]} vs {dts}')
    if sym is not None:
        return outcome(False, f'{area}:{sym}:{kcls}', f'assign.bloc result differs from the model ({sym}); cells={want} observed {str(o)[:300]}')
    return outcome(True, nontrivial=bool(want))


# ---------------------------------------------------------------------------------------------
# Series: assign / drop / mask / masked_array

def series_value(sm, R, rs, vspec):
    import static_frame as sf
    t = vspec[0]
    distinct = len(set(R)) == len(R)
    if t == 'elem':
        e = ELEMS[vspec[1]]
        return e, {}, [{i: e for i in R}]
    if not distinct or not R:
        return None
    if t in ('arr1', 'tuple', 'list'):
        if rs:
            return None
        dk = vspec[1] if t == 'arr1' else 'i'
        vals = _arr_vals(dk, len(R))
        value = _mk_array(vals, dk) if t == 'arr1' else (tuple(vals) if t == 'tuple' else list(vals))
        return value, {}, [{p: v for p, v in zip(order, vals)} for order in (R, sorted(R))]
    if t == 'series':
        if rs or sm.ax.kind not in X_LABEL:
            return None
        _, variant, dk, fill = vspec
        order = _orders(R, variant, None)
        if not order:
            return None
        vals = {p: v for p, v in zip(order, _arr_vals(dk, len(order), 800))}
        value = sf.Series(_mk_array([vals[p] for p in order], dk), index=_index_for(order, sm.ax))
        fv = NAN if fill is None else fill
        return value, ({} if fill is None else dict(fill_value=fill)), [{p: vals.get(p, fv) for p in R}]
    if t == 'apply':
        if vspec[1] == 'rev':
            return ((lambda x: x) if rs else (lambda x: x.iloc[::-1])), {}, [{}]
        if vspec[1] == 'dropfirst':
            if rs:
                return None
            return (lambda x: x.iloc[1:]), {}, [{R[0]: NAN}]
        if vspec[1] == 'neg':
            if sm.kind != 'i':
                return None
            return (lambda x: -x), {}, [{i: -sm.data[i] for i in R}]
    if t in ('arr2', 'frame'):
        return None
    raise ValueError(vspec)


def eval_series_update(s, snap, sm, iface, route, k, vspec=None):
    import static_frame as sf
    if DRY:
        return outcome(True)
    n = sm.n
    m = resolve(k, n, sm.ax, route if route == 'iloc' else 'loc')
    if m[0] in ('raise', 'skip'):
        return outcome(True, nontrivial=False, how='skip')
    R, rs = positions(m)
    flags = m[2] if m[0] == 'multi' else set()
    key = real_key(k, sm.ax, route if route == 'iloc' else 'loc')
    node = getattr(s, iface)
    sel = (lambda: node.iloc[key]) if route == 'iloc' else (lambda: node.loc[key]) if route == 'loc' else (lambda: node[key])
    area = f'{PID}:Series.{iface}.{"iloc" if route == "iloc" else "loc"}'
    kcls = f'key={key_class(k)}'
    vtxt = None
    if iface == 'assign':
        bv = series_value(sm, R, rs, vspec)
        if bv is None:
            return outcome(True, nontrivial=False, how='skip')
        value, kw, alts = bv
        op = (lambda: sel().apply(value, **kw)) if vspec[0] == 'apply' else (lambda: sel()(value, **kw))
        vtxt = None if vspec[0] == 'elem' else vspec[0] if vspec[0] != 'apply' else f'apply-{vspec[1]}'
    else:
        op = sel
    r, exc, mutated = run_op(op, s, snap)
    tail = f':{kcls}' + (f':value={vtxt}' if vtxt else '')
    if mutated:
        return outcome(False, f'{area}:original-mutated', f'snapshot of the original Series changed by {iface}')
    if exc is not None:
        if 'repeats' in flags:
            return outcome(True, nontrivial=False, how='repeat-rejected')
        return outcome(False, f'{area}:raises-{type(exc).__name__}{tail}', f'{iface} raised {type(exc).__name__}: {exc!s:.140}')
    sym = None
    dt = str(np.dtype(DT[sm.kind]))
    if iface == 'masked_array':
        if not isinstance(r, np.ma.MaskedArray) or r.shape != (n,):
            sym = 'not-a-masked-array'
        elif np.ma.getmaskarray(r).tolist() != [i in R for i in range(n)]:
            sym = 'wrong-mask'
        elif not all(cell_eq(a, b) for a, b in zip(arr_cells(np.ma.getdata(r)), sm.data)):
            sym = 'wrong-data'
    elif not isinstance(r, sf.Series) or r is s:
        sym = 'not-a-new-Series'
    else:
        o = obs_series(r)
        if iface == 'assign':
            sym = 'no-alternative'
            for cmap in alts:
                data = [cmap.get(i, sm.data[i]) for i in range(n)]
                if o['rows'] != sm.ax.norm:
                    sym = 'labels-changed'
                elif len(o['data']) != n or not all(cell_eq(a, b) for a, b in zip(o['data'], data)):
                    sym = 'wrong-cells'
                elif not R and o['dtype'] != dt:
                    sym = 'dtype-changed-though-no-cell-addressed'
                elif o['name'] != sm.name:
                    sym = 'name-changed'
                else:
                    sym = None
                    break
        elif iface == 'drop':
            keep = [i for i in range(n) if i not in set(R)]
            if o['rows'] != [sm.ax.norm[i] for i in keep]:
                sym = 'wrong-labels'
            elif len(o['data']) != len(keep) or not all(cell_eq(a, sm.data[i]) for a, i in zip(o['data'], keep)):
                sym = 'wrong-cells'
            elif o['dtype'] != dt:
                sym = 'dtype-changed'
            elif o['name'] != sm.name:
                sym = 'name-changed'
        elif iface == 'mask':
            if o['rows'] != sm.ax.norm:
                sym = 'labels-changed'
            elif o['dtype'] != 'bool' or o['data'] != [i in R for i in range(n)]:
                sym = 'wrong-mask'
    if sym == 'dtype-changed-though-no-cell-addressed':
        tail = ''
    if sym is not None:
        return outcome(False, f'{area}:{sym}{tail}', f'{iface} result differs from the model ({sym}); R={R} observed {str(obs_series(r) if hasattr(r, "index") else r)[:300]}')
    return outcome(True, nontrivial=bool(R))


# ---------------------------------------------------------------------------------------------
# key enumerations for updates (valid keys only: the behaviour of invalid keys belongs to C04)

def update_positional(n, tier, full_slices=True):
    """ints, slices, int lists / arrays (negative members, unordered, a repeat), Boolean arrays -- all in range"""
    for p in range(-n, n):
        yield ('int', p)
    if tier == 'quick' and n >= 4:
        yield from quick_slices(n)
    else:
        yield from all_slices(n)
    for i, lst in enumerate(int_lists(n)):
        if any(not (-n <= p < n) for p in lst):
            continue
        yield ('ilist', lst)
        if i % (6 if tier == 'quick' else 2) == 0:
            yield ('iarr', lst)
    for bits in itertools.product((False, True), repeat=n):
        yield ('bool', list(bits))


def rep_rows(n, tier, iface=None):
    out = _rep_rows(n, tier)
    if iface == 'drop':      # for drop the neutral key is the empty one; dropping every row stays in as one case
        out = [('ilist', [])] + out
    return out


def _rep_rows(n, tier):
    if n == 0:
        return [NULL, ('slice', None, None, -1), ('bool', [])]
    out = [NULL, ('int', -1), ('ilist', [n - 1, 0] if n > 1 else [0])]
    if tier != 'quick':
        out += [('slice', -1, None, -2), ('bool', [i % 2 == 0 for i in range(n)]), ('int', 0), ('slice', 1, None, None), ('ilist', [-1]), ('bool', [False] * n), ('iarr', list(range(n))[::-1])]
    return S._dedupe(out)


def label_update_keys(ax):
    """label forms for updates: every label, ordered label lists, label slices (step None / 2), Boolean array, Boolean Series, ILoc"""
    n = ax.n
    yield NULL
    for i in range(n):
        yield ('lab', i)
    for seq in S.distinct_sequences(n, 3):
        if seq:
            yield ('lablist', list(seq))
    if n:
        yield ('labarr', [n - 1, 0] if n > 1 else [0])
        yield ('labindex', [0])
    for a in [None] + list(range(n)):
        for b in [None] + list(range(n)):
            for c in (None, 2):
                yield ('labslice', a, b, c)
    for bits in itertools.product((False, True), repeat=n):
        yield ('bool', list(bits))
    if n > 1 and ax.kind in X_LABEL:
        yield ('bseries', [[n - 1, True], [['x', 0], True], [0, False]])
        yield ('bseries', [[i, i % 2 == 1] for i in range(n)][::-1])
    for p in (-1, 0):
        if n:
            yield ('iloc', ('int', p))
    yield ('iloc', ('slice', -1, None, -2))
    yield ('iloc', ('slice', None, None, -1))
    if n > 1:
        yield ('iloc', ('ilist', [-1, 0]))


# ---------------------------------------------------------------------------------------------
# recording

def _record(rep, res, rp, dk):
    over = None
    if len(res) == 2:
        res, over = res
    ok, key, what, nontrivial, how = res
    if how == 'skip':
        return
    rep.count(distinct_key=dk if nontrivial else None, sample=rp if nontrivial else None)
    if not ok:
        if over:
            rp = dict(rp, **over)
        rep.check(False, key, what + f' | case {rp}', rp)


def _final(rep, orig, case):
    if not orig.final_ok():
        rep.fail(f'{PID}:original-mutated-during-case', f'snapshot of the original container differs after the updates of case {case}', dict(fn='case', case=list(case)))


MIXES = {'quick': ['i', 'U', 'if', 'ii', 'bO', 'iii', 'ifU', 'iiii', 'iiff', 'ifUO'],
         'thorough': ['i', 'U', 'f', 'if', 'ii', 'bO', 'iii', 'ifU', 'UUb', 'fOi', 'iiii', 'iiff', 'ifUO', 'fiif', 'iifU']}


def frame_cases(tier, rows_for):
    for kinds in MIXES[tier]:
        m = len(kinds)
        for rows in rows_for(m):
            cols = [col_array(k, j, rows) for j, k in enumerate(kinds)]
            for lay in layouts_dtype_safe(cols):
                yield kinds, rows, [list(x) for x in lay]


# ---------------------------------------------------------------------------------------------
# run_assign / run_assign_labelled

UNLABELLED = ('elem', 'arr1', 'arr2', 'tuple', 'list')


def _vspecs(rs, cs, group, tier):
    vs = value_specs(rs, cs, tier)
    return [v for v in vs if (v[0] in UNLABELLED) == (group == 'unlabelled')]


def quick_slices(n):
    """quick tier, n = 4: start / stop over every distinct clamping class, 6 steps (600 slices instead of 1584)"""
    vals = [None, -n - 1, -n, -n + 1, -1, 0, 1, n - 1, n, n + 1]
    for a in vals:
        for b in vals:
            for c in (None, 1, 2, -1, -2, -3):
                yield ('slice', a, b, c)


def assign_keys(n, tier):
    for k in update_positional(n, tier, full_slices=True):
        if k[0] == 'slice':
            continue
        yield k
    if tier == 'quick' and n >= 4:
        yield from quick_slices(n)
    else:
        yield from all_slices(n)


def _assign_frame_cases(tier, group):
    if tier == 'quick':
        mixes = ['i', 'if', 'ii', 'iii', 'ifU', 'iiii', 'iiff'] if group == 'unlabelled' else ['i', 'if', 'ifU', 'iiii', 'ifUO']
        rows_for = lambda m: (3,) if m >= 3 else (2, 4) if m == 2 else (1, 3)
    else:
        mixes = MIXES['thorough']
        rows_for = (lambda m: (1, 3, 4) if m < 4 else (2, 4)) if group == 'unlabelled' else (lambda m: (1, 3, 4) if m < 3 else (2, 4) if m == 3 else (3,))
    out = []
    for kinds in mixes:
        for rows in rows_for(len(kinds)):
            cols = [col_array(k, j, rows) for j, k in enumerate(kinds)]
            for lay in layouts_dtype_safe(cols):
                for part in ('cols', 'rows'):
                    out.append(('frame', kinds, rows, [list(x) for x in lay], part))
    cost = {0: 10, 1: 60, 2: 200, 3: 500, 4: 1000}
    out.sort(key=lambda c: -(cost[len(c[1])] if c[4] == 'cols' else cost[c[2]]))
    return out


def _assign_pairs(fm, part, tier, group='unlabelled'):
    nr, nc = fm.nrows, len(fm.kinds)
    if part == 'cols':
        for rk in rep_rows(nr, tier):
            for ck in assign_keys(nc, tier):
                yield rk, ck
    else:
        reps = [('int', -1), ('ilist', [nc - 1, 0] if nc > 1 else [0])] + ([NULL, ('slice', None, None, -1), ('bool', [j % 2 == 0 for j in range(nc)])] if tier != 'quick' else [])
        for rk in assign_keys(nr, tier):
            for ck in S._dedupe(reps):
                if tier == 'quick' and group == 'labelled' and rk[0] == 'slice' and ck[0] == 'ilist':
                    continue
                yield rk, ck
            yield rk, None


def _run_assign(repo, task, group):
    tier = task.get('tier', 'quick')
    rep = Report(f'C08-assign-{group}', task,
                 rule=f'Frame.assign.iloc[r, c](value) and Series.assign.iloc[k](value), {group} values: every dtype-safe 1-D/2-D block layout x (every column key x representative '
                      'row keys) + (every row key x representative column keys) + one-axis keys; keys = all in-range ints, slices with start/stop/step in [-n-1,n+1] U {None} '
                      '(quick, n=4: every clamping class of start/stop x 6 steps), int lists/arrays of distinct positions in every order written non-negative/negative/mixed + a repeat, '
                      'all Boolean arrays; values: ' + ('element (int/str/None/float/bool), 1-D array (int/float/object), tuple, list, 2-D array (int/float/str), 1-D array broadcast over rows'
                                                       if group == 'unlabelled' else
                                                       'Series / Frame with same / reversed / rotated / partial / partial+foreign / foreign labels (default and explicit fill_value), '
                                                       '.apply (label-reversing identity, label-dropping, negation); plus assign.bloc (Boolean array / Frame keys x element / array / Series / Frame / apply) '
                                                       'and the loc / getitem forms on str, int and auto-integer axes') +
                      '; every value shape for non-slice keys, two rotating value shapes per slice key. Non-trivial: >= 1 cell addressed',
                 bound=f'columns <= 4, rows <= 4, dtypes int64/float64(NaN)/bool/<U2/object, tier={tier}')
    # small case families first: a truncated run (time budget) then still covers every family
    cases = [('series', kind, n) for kind in ('ifbUO' if (group == 'unlabelled' or tier != 'quick') else 'ifO') for n in (0, 1, 2, 3, 4)]
    if group == 'labelled':
        cases += _label_assign_cases(tier) + _bloc_assign_cases(tier)
    cases += _assign_frame_cases(tier, group)
    for case in rep.shard(cases):
        try:
            if case[0] == 'series':
                _, kind, n = case
                sm = SeriesModel(kind, n)
                s = sm.build()
                snap = Orig(s)
                for k in assign_keys(n, tier):
                    R, rs = positions(model_positional(k, n))
                    vs = [v for v in value_specs(rs, True, tier) if (v[0] in UNLABELLED) == (group == 'unlabelled')]
                    for v in vs:
                        rp = dict(fn='assign', c='series', kind=kind, n=n, ax='str', iface='assign', route='iloc', k=k, v=v)
                        _record(rep, eval_series_update(s, snap, sm, 'assign', 'iloc', k, v), rp, ('s', kind, n, repr(k), repr(v)))
            elif case[0] == 'frame':
                _, kinds, rows, lay, part = case
                fm = FrameModel(kinds, rows, lay)
                f = fm.build()
                snap = Orig(f)
                cnt = 0
                for rk, ck in _assign_pairs(fm, part, tier, group):
                    rs = rk[0] == 'int'
                    cs = ck is not None and ck[0] == 'int'
                    vs = _vspecs(rs, cs, group, tier)
                    var = ck if part == 'cols' else rk
                    is_slice = var is not None and var[0] == 'slice'
                    cnt += 1
                    if is_slice and len(vs) > 1:
                        vs = S._dedupe([vs[cnt % len(vs)], vs[(cnt * 7 + 3) % len(vs)]] if (part == 'cols' and group == 'unlabelled') else [vs[cnt % len(vs)]])
                    elif tier == 'quick' and var is not None and var[0] in ('ilist', 'iarr') and len(vs) > 5:
                        # every value shape over the enumeration as a whole: two fixed shapes + three rotating ones per key
                        vs = S._dedupe(([vs[0], vs[4]] if group == 'unlabelled' else [vs[0]]) + [vs[(cnt + d) % len(vs)] for d in ((0, 3, 6) if group == 'unlabelled' else (1, 4))])
                    for v in vs:
                        rp = dict(fn='assign', c='frame', kinds=kinds, rows=rows, layout=lay, rax='str', cax='str', iface='assign', route='iloc', rk=rk, ck=ck, v=v)
                        _record(rep, eval_frame_update(f, snap, fm, 'assign', 'iloc', rk, ck, v), rp, ('f', kinds, rows, repr(lay), repr(rk), repr(ck), repr(v)))
            elif case[0] == 'bloc':
                _, kinds, rows, lay, axes = case
                fm = FrameModel(kinds, rows, lay, axes[0], axes[1])
                f = fm.build()
                snap = Orig(f)
                for kc, ks in enumerate(S.bloc_keys(fm, 'quick')):
                    for v in (BLOC_VALUES if tier != 'quick' else [BLOC_VALUES[(kc + d) % len(BLOC_VALUES)] for d in (0, 3, 6, 9)]):
                        rp = dict(fn='bloc', kinds=kinds, rows=rows, layout=lay, rax=axes[0], cax=axes[1], k=ks, v=v)
                        _record(rep, eval_frame_bloc(f, snap, fm, ks, v), rp, ('b', kinds, rows, repr(lay), axes, repr(ks), repr(v)))
            elif case[0] == 'label':
                _, kinds, rows, lay, rax, cax = case
                fm = FrameModel(kinds, rows, lay, rax, cax)
                f = fm.build()
                snap = Orig(f)
                for route, rk, ck in _label_pairs(fm):
                    rs = rk is not None and (rk[0] == 'lab' or (rk[0] == 'iloc' and rk[1][0] == 'int'))
                    cs = ck is not None and (ck[0] == 'lab' or (ck[0] == 'iloc' and ck[1][0] == 'int'))
                    for v in value_specs(rs, cs, tier):
                        rp = dict(fn='assign', c='frame', kinds=kinds, rows=rows, layout=lay, rax=rax, cax=cax, iface='assign', route=route, rk=rk, ck=ck, v=v)
                        _record(rep, eval_frame_update(f, snap, fm, 'assign', route, rk, ck, v), rp, ('l', kinds, rows, repr(lay), rax, cax, route, repr(rk), repr(ck), repr(v)))
            elif case[0] == 'series-label':
                _, kind, n, axk = case
                sm = SeriesModel(kind, n, axk)
                s = sm.build()
                snap = Orig(s)
                for k in label_update_keys(sm.ax):
                    rs = k[0] == 'lab' or (k[0] == 'iloc' and k[1][0] == 'int')
                    for route in ('loc', 'getitem'):
                        for v in value_specs(rs, True, tier):
                            rp = dict(fn='assign', c='series', kind=kind, n=n, ax=axk, iface='assign', route=route, k=k, v=v)
                            _record(rep, eval_series_update(s, snap, sm, 'assign', route, k, v), rp, ('sl', kind, n, axk, route, repr(k), repr(v)))
            _final(rep, snap, case)
        except Exception:
            rep.error(f'run_assign[{group}] case {case}')
    return rep.done()


def run_assign(repo, task):
    return _run_assign(repo, task, 'unlabelled')


def run_assign_labelled(repo, task):
    return _run_assign(repo, task, 'labelled')


BLOC_VALUES = [('elem', 'int'), ('elem', 'str'), ('elem', 'none'), ('arr2', 'i'), ('arr2', 'f'), ('series', 'all', 'i'), ('series', 'all', 'U'),
               ('frame', 'same', 'rev', 'i'), ('frame', 'rev', 'partial', 'f'), ('frame', 'partial+foreign', 'rot', 'i'), ('apply', 'rev'), ('apply', 'neg')]


def _bloc_assign_cases(tier):
    shapes = [('i', 3), ('if', 2), ('ifU', 2), ('iib', 3), ('iiff', 2), ('iiii', 2)] if tier == 'quick' else [('i', 4), ('if', 3), ('ifU', 3), ('iib', 3), ('iiff', 3), ('iiii', 3), ('bOUf', 2)]
    out = []
    for kinds, rows in shapes:
        cols = [col_array(k, j, rows) for j, k in enumerate(kinds)]
        for lay in layouts_dtype_safe(cols):
            out.append(('bloc', kinds, rows, [list(x) for x in lay], ('str', 'int')))
    return out


def _label_assign_cases(tier):
    out = []
    for kinds, rows in (('ifU', 3), ('iiOb', 2)):
        cols = [col_array(k, j, rows) for j, k in enumerate(kinds)]
        lays = list(layouts_dtype_safe(cols))
        for lay in ([lays[0], lays[-1]] if tier == 'quick' else lays):
            for rax, cax in (('str', 'int'), ('auto', 'str'), ('int', 'auto')):
                out.append(('label', kinds, rows, [list(x) for x in lay], rax, cax))
    for axk in ('str', 'int', 'auto'):
        for kind in ('i', 'O'):
            for n in (1, 3, 4):
                out.append(('series-label', kind, n, axk))
    return out


def _label_pairs(fm):
    rkeys = list(label_update_keys(fm.rax))
    ckeys = list(label_update_keys(fm.cax))
    rreps = [NULL] + ([('lab', fm.nrows - 1), ('lablist', [fm.nrows - 1, 0]), ('labslice', 0, None, 2)] if fm.nrows > 1 else [])
    creps = [NULL, ('lab', 0), ('lablist', [len(fm.kinds) - 1, 0]), ('bool', [j % 2 == 1 for j in range(len(fm.kinds))])]
    for rk in rkeys:
        for ck in creps:
            yield 'loc', rk, ck
        yield 'loc', rk, None
    for ck in ckeys:
        for rk in rreps:
            yield 'loc', rk, ck
        yield 'getitem', None, ck


# ---------------------------------------------------------------------------------------------
# run_drop_mask: drop / mask / masked_array on Frame and Series, iloc (all keys) and loc / getitem forms

def _dm_cases(tier):
    if tier == 'quick':
        mixes = ['i', 'if', 'ii', 'bO', 'iii', 'ifU', 'iiii', 'iiff']
        rows_for = lambda m: (3,) if m >= 3 else (2, 4) if m == 2 else (0, 1, 3)
    else:
        mixes = MIXES['thorough']
        rows_for = lambda m: (0, 1, 3, 4) if m < 4 else (1, 3, 4)
    out = []
    for kinds in mixes:
        for rows in rows_for(len(kinds)):
            cols = [col_array(k, j, rows) for j, k in enumerate(kinds)]
            for lay in layouts_dtype_safe(cols):
                for part in ('cols', 'rows'):
                    out.append(('frame', kinds, rows, [list(x) for x in lay], part))
    cost = {0: 10, 1: 60, 2: 200, 3: 500, 4: 1000}
    out.sort(key=lambda c: -(cost[len(c[1])] if c[4] == 'cols' else cost[c[2]]))
    frames, out = out, []
    # small case families first: a truncated run (time budget) then still covers every family
    out += [('series', kind, n, 'str') for kind in 'ifbUO' for n in (0, 1, 2, 3, 4)]
    for kinds, rows in (('ifU', 3), ('iiOb', 2)):
        cols = [col_array(k, j, rows) for j, k in enumerate(kinds)]
        lays = list(layouts_dtype_safe(cols))
        for lay in ([lays[0], lays[-1]] if tier == 'quick' else lays):
            for rax, cax in (('str', 'int'), ('auto', 'str'), ('int', 'auto'), ('ih', 'D')):
                out.append(('label', kinds, rows, [list(x) for x in lay], rax, cax))
    for axk in ('str', 'int', 'auto', 'D', 'ih'):
        for n in (1, 3, 4):
            out.append(('series-label', 'i', n, axk))
    return out + frames


def run_drop_mask(repo, task):
    tier = task.get('tier', 'quick')
    rep = Report('C08-drop-mask', task,
                 rule='Frame / Series .drop, .mask, .masked_array: every dtype-safe block layout x (every column key x representative row keys) + (every row key x representative '
                      'column keys) + one-axis keys on the iloc form (all in-range ints, all slices with start/stop/step in [-n-1,n+1] U {None} (quick, n=4: every clamping class of start/stop x 6 steps), int lists/arrays of distinct positions in '
                      'every order and sign + a repeat, all Boolean arrays); loc / getitem forms (labels, label lists, label slices, Boolean array / Series, ILoc) on str / int / '
                      'auto-integer / IndexDate / IndexHierarchy axes. Non-trivial: >= 1 cell addressed',
                 bound=f'columns <= 4, rows <= 4, tier={tier}')
    for case in rep.shard(_dm_cases(tier)):
        try:
            if case[0] == 'frame':
                _, kinds, rows, lay, part = case
                fm = FrameModel(kinds, rows, lay)
                f = fm.build()
                snap = Orig(f)
                nr, nc = rows, len(kinds)
                if part == 'cols':
                    pairs = [(rk, ck) for rk in rep_rows(nr, tier, 'drop') for ck in update_positional(nc, tier)]
                else:
                    reps = S._dedupe([('ilist', []), ('int', -1), ('ilist', [nc - 1, 0] if nc > 1 else [0])] + ([NULL, ('slice', -1, None, -2)] if tier != 'quick' else []))
                    pairs = [(rk, ck) for rk in update_positional(nr, tier) for ck in reps] + [(rk, None) for rk in update_positional(nr, tier)]
                for rk, ck in pairs:
                    for iface in ('drop', 'mask', 'masked_array'):
                        if iface != 'drop' and (rk == ('ilist', []) or ck == ('ilist', [])) and part == ('cols' if rk == ('ilist', []) else 'rows'):
                            continue
                        if iface == 'masked_array' and tier == 'quick' and (part == 'rows' or (ck is not None and ck[0] == 'slice')):
                            continue      # masked_array shares extract_iloc_mask with mask: quick tier checks it on the non-slice column keys
                        rp = dict(fn='update', c='frame', kinds=kinds, rows=rows, layout=lay, rax='str', cax='str', iface=iface, route='iloc', rk=rk, ck=ck, v=None)
                        _record(rep, eval_frame_update(f, snap, fm, iface, 'iloc', rk, ck), rp, ('f', iface, kinds, rows, repr(lay), repr(rk), repr(ck)))
            elif case[0] == 'series':
                _, kind, n, axk = case
                sm = SeriesModel(kind, n, axk)
                s = sm.build()
                snap = Orig(s)
                for k in update_positional(n, tier):
                    for iface in ('drop', 'mask', 'masked_array'):
                        rp = dict(fn='update', c='series', kind=kind, n=n, ax=axk, iface=iface, route='iloc', k=k, v=None)
                        _record(rep, eval_series_update(s, snap, sm, iface, 'iloc', k), rp, ('s', iface, kind, n, repr(k)))
            elif case[0] == 'label':
                _, kinds, rows, lay, rax, cax = case
                fm = FrameModel(kinds, rows, lay, rax, cax)
                f = fm.build()
                snap = Orig(f)
                for route, rk, ck in _label_pairs(fm):
                    for iface in ('drop', 'mask', 'masked_array'):
                        rp = dict(fn='update', c='frame', kinds=kinds, rows=rows, layout=lay, rax=rax, cax=cax, iface=iface, route=route, rk=rk, ck=ck, v=None)
                        _record(rep, eval_frame_update(f, snap, fm, iface, route, rk, ck), rp, ('l', iface, kinds, rows, repr(lay), rax, cax, route, repr(rk), repr(ck)))
            elif case[0] == 'series-label':
                _, kind, n, axk = case
                sm = SeriesModel(kind, n, axk)
                s = sm.build()
                snap = Orig(s)
                for k in label_update_keys(sm.ax):
                    for route in ('loc', 'getitem'):
                        for iface in ('drop', 'mask', 'masked_array'):
                            rp = dict(fn='update', c='series', kind=kind, n=n, ax=axk, iface=iface, route=route, k=k, v=None)
                            _record(rep, eval_series_update(s, snap, sm, iface, route, k), rp, ('sl', iface, kind, n, axk, route, repr(k)))
            _final(rep, snap, case)
        except Exception:
            rep.error(f'run_drop_mask case {case}')
    return rep.done()


# ---------------------------------------------------------------------------------------------
# run_other: astype, relabel, rename, insert_before / insert_after

ASTYPES = ('float64', 'object', 'str')


def _astype_ok(kind, dt):
    if dt == 'float64':
        return kind in 'ibf'
    return True


def _expected_astype(fm, j, dt):
    a = col_array(fm.kinds[j], j, fm.nrows).astype(str if dt == 'str' else np.dtype(dt))
    return arr_cells(a), str(a.dtype)


def eval_astype(f, orig, fm, form, ck, dt):
    """form: 'getitem' (f.astype[ck](dt)), 'call' (f.astype(dt)), 'mapping' (f.astype({label: dt})); ck label spec"""
    import static_frame as sf
    nc = len(fm.kinds)
    if form == 'call':
        C = list(range(nc))
    else:
        m = model_label(ck, fm.cax)
        if m[0] in ('raise', 'skip'):
            return outcome(True, nontrivial=False, how='skip')
        C, _ = positions(m)
        if m[0] == 'multi' and 'repeats' in m[2]:
            return outcome(True, nontrivial=False, how='skip')
    if not all(_astype_ok(fm.kinds[j], dt) for j in C):
        return outcome(True, nontrivial=False, how='skip')
    tdt = str if dt == 'str' else np.dtype(dt)
    if form == 'getitem':
        key = build_label(ck, fm.cax)
        op = lambda: f.astype[key](tdt)
    elif form == 'call':
        op = lambda: f.astype(tdt)
    else:
        if m[0] != 'scalar' and ck[0] != 'lablist':
            return outcome(True, nontrivial=False, how='skip')
        mp = {fm.cax.raw[j]: tdt for j in C}
        op = lambda: f.astype(mp)
    r, exc, mutated = run_op(op, f, orig)
    area = f'{PID}:Frame.astype.{form}'
    kcls = f'cols={key_class(ck) if form != "call" else "all"}:to={dt}'
    if mutated:
        return outcome(False, f'{area}:original-mutated', 'snapshot of the original Frame changed by astype')
    if exc is not None:
        return outcome(False, f'{area}:raises-{type(exc).__name__}:cols={key_class(ck) if form != "call" else "all"}', f'astype raised {type(exc).__name__}: {exc!s:.140}')
    if not isinstance(r, sf.Frame) or r is f:
        return outcome(False, f'{area}:not-a-new-Frame', f'astype returned {type(r).__name__}')
    o = obs_frame(r)
    data, want = [], []
    base = model_dtypes(fm)
    for j in range(nc):
        if j in C:
            cells, d = _expected_astype(fm, j, dt)
            data.append(cells)
            want.append(d)
        else:
            data.append(fm.data[j])
            want.append(base[j])
    sym = cmp_frame(o, fm.rax.norm, fm.cax.norm, data, want, fm.name, exact_cols=set(range(nc)) - set(C))
    if sym is not None and form == 'mapping':
        # the mapping form does not depend on the key kind: one key per target dtype
        return outcome(False, f'{area}:wrong-columns-converted:to={dt}', f'astype(mapping) converted the wrong columns ({sym}); C={C} observed dtypes {o["dtypes"]} expected {want}')
    if sym is not None:
        return outcome(False, f'{area}:{sym}:{kcls}', f'astype result differs from the model ({sym}); C={C} observed {str(o)[:300]} expected dtypes {want}')
    return outcome(True, nontrivial=bool(C))


RELABELS = ('map-partial', 'map-full', 'func', 'list', 'auto')


def _relabel_arg(how, ax):
    """-> (argument, expected normalised labels)"""
    import static_frame as sf
    raw = ax.raw
    n = len(raw)
    if how == 'map-partial':
        mp = {raw[i]: ('N', i) for i in range(0, n, 2)}
        mp['not-a-label'] = 'unused'
        return mp, [nl(mp.get(x, x)) if not isinstance(x, tuple) or x not in mp else nl(mp[x]) for x in raw]
    if how == 'map-full':
        mp = {raw[i]: (('L', n - i) if ax.kind == 'ih' else f'L{n - i}') for i in range(n)}
        return mp, [nl(mp[x]) for x in raw]
    if how == 'func':
        fn = (lambda x: (x, 'k'))
        return fn, [nl(fn(x)) for x in raw]
    if how == 'list':
        new = [f'n{i}' for i in range(n)][::-1]
        return new, [nl(x) for x in new]
    if how == 'auto':
        return sf.IndexAutoFactory, [nl(i) for i in range(n)]
    raise ValueError(how)


def eval_relabel(c, orig, model, how_r, how_c):
    """Frame.relabel(index=, columns=) / Series.relabel(index)"""
    import static_frame as sf
    is_frame = isinstance(c, sf.Frame)
    rax = model.rax if is_frame else model.ax
    if rax.kind == 'ih' and (how_r in ('map-partial', 'func', 'list') or rax.n == 0):
        return outcome(True, nontrivial=False, how='skip')
    kw, exp_r, exp_c = {}, rax.norm, (model.cax.norm if is_frame else None)
    if how_r is not None:
        arg, exp_r = _relabel_arg(how_r, rax)
        kw['index'] = arg
    if is_frame and how_c is not None:
        if model.cax.kind == 'ih':
            return outcome(True, nontrivial=False, how='skip')
        arg, exp_c = _relabel_arg(how_c, model.cax)
        kw['columns'] = arg
    if not kw or (not rax.n and how_r in ('map-partial',)):
        return outcome(True, nontrivial=False, how='skip')
    op = (lambda: c.relabel(**kw)) if is_frame else (lambda: c.relabel(kw['index']))
    r, exc, mutated = run_op(op, c, orig)
    cont = 'Frame' if is_frame else 'Series'
    area = f'{PID}:{cont}.relabel'
    kcls = f'index={how_r},columns={how_c}'
    if mutated:
        return outcome(False, f'{area}:original-mutated', 'snapshot of the original changed by relabel')
    if exc is not None:
        return outcome(False, f'{area}:raises-{type(exc).__name__}:{kcls}', f'relabel raised {type(exc).__name__}: {exc!s:.140}')
    if type(r) is not type(c) or r is c:
        return outcome(False, f'{area}:not-a-new-container', f'relabel returned {type(r).__name__}')
    if is_frame:
        o = obs_frame(r)
        sym = cmp_frame(o, exp_r, exp_c, model.data, model_dtypes(model), model.name, exact_cols=set(range(len(model.kinds))))
    else:
        o = obs_series(r)
        sym = None
        if o['rows'] != exp_r:
            sym = 'wrong-labels'
        elif len(o['data']) != model.n or not all(cell_eq(a, b) for a, b in zip(o['data'], model.data)):
            sym = 'values-changed'
        elif o['dtype'] != str(np.dtype(DT[model.kind])):
            sym = 'dtype-changed'
        elif o['name'] != model.name:
            sym = 'name-changed'
    if sym is not None:
        return outcome(False, f'{area}:{sym}:{kcls}', f'relabel result differs from the model ({sym}): observed {str(o)[:300]} expected rows {exp_r} cols {exp_c}')
    return outcome(True)


def eval_rename(c, orig, model, name_kw):
    """rename(name) / rename(index=..) / rename(columns=..): only names change"""
    import static_frame as sf
    is_frame = isinstance(c, sf.Frame)
    kw = {k: v for k, v in name_kw.items()}
    if not is_frame and 'columns' in kw:
        return outcome(True, nontrivial=False, how='skip')
    args = (kw.pop('name'),) if 'name' in kw else ()
    op = lambda: c.rename(*args, **kw)
    r, exc, mutated = run_op(op, c, orig)
    cont = 'Frame' if is_frame else 'Series'
    area = f'{PID}:{cont}.rename'
    kcls = ','.join(sorted(name_kw))
    if mutated:
        return outcome(False, f'{area}:original-mutated', 'snapshot of the original changed by rename')
    if exc is not None:
        return outcome(False, f'{area}:raises-{type(exc).__name__}:{kcls}', f'rename raised {type(exc).__name__}: {exc!s:.140}')
    if type(r) is not type(c) or r is c:
        return outcome(False, f'{area}:not-a-new-container', f'rename returned {type(r).__name__}')
    want_name = name_kw.get('name', model.name)
    sym = None
    if r.name != want_name:
        sym = 'wrong-name'
    elif r.index.name != name_kw.get('index', c.index.name):
        sym = 'wrong-index-name'
    elif is_frame and r.columns.name != name_kw.get('columns', c.columns.name):
        sym = 'wrong-columns-name'
    elif is_frame:
        sym = cmp_frame(obs_frame(r), model.rax.norm, model.cax.norm, model.data, model_dtypes(model), ..., exact_cols=set(range(len(model.kinds))))
    else:
        o = obs_series(r)
        if o['rows'] != model.ax.norm or not all(cell_eq(a, b) for a, b in zip(o['data'], model.data)) or o['dtype'] != str(np.dtype(DT[model.kind])):
            sym = 'content-changed'
    if sym is not None:
        return outcome(False, f'{area}:{sym}:{kcls}', f'rename({name_kw}) differs from the model ({sym})')
    return outcome(True)


def eval_insert(f, orig, fm, where, kspec, cspec):
    """Frame.insert_before / insert_after(key, container).  kspec: ('lab', j) | ('iloc', ('int', p));
    cspec: ('series', order variant, dtype kind, fill) | ('frame', order variant, dtype kind, fill, ncols)"""
    import static_frame as sf
    nr, nc = fm.nrows, len(fm.kinds)
    if fm.rax.kind not in X_LABEL or fm.cax.kind not in ('str',):
        return outcome(True, nontrivial=False, how='skip')
    m = model_label(kspec, fm.cax)
    if m[0] != 'scalar':
        return outcome(True, nontrivial=False, how='skip')
    p = m[1]
    pos = p if where == 'before' else p + 1
    order = _orders(list(range(nr)), cspec[1], None)
    dk, fill = cspec[2], cspec[3]
    ncol_new = 1 if cspec[0] == 'series' else cspec[4]
    if not order:
        return outcome(True, nontrivial=False, how='skip')
    flat = _arr_vals(dk, len(order) * ncol_new, 800)
    new_labels = ['NEW0', 'NEW1', 'NEW2'][:ncol_new]
    if cspec[0] == 'series':
        cont = sf.Series(_mk_array(flat, dk), index=_index_for(order, fm.rax), name=new_labels[0])
    else:
        cont = sf.Frame(_mk_array(flat, dk, (len(order), ncol_new)), index=_index_for(order, fm.rax), columns=new_labels)
    kw = {} if fill is None else dict(fill_value=fill)
    fv = NAN if fill is None else fill
    key = build_label(kspec, fm.cax)
    meth = f.insert_before if where == 'before' else f.insert_after
    op = lambda: meth(key, cont, **kw)
    r, exc, mutated = run_op(op, f, orig)
    area = f'{PID}:Frame.insert_{where}'
    kcls = f'key={key_class(kspec)}:container={cspec[0]}-{cspec[1]}'
    if mutated:
        return outcome(False, f'{area}:original-mutated', 'snapshot of the original changed by insert')
    if exc is not None:
        return outcome(False, f'{area}:raises-{type(exc).__name__}:{kcls}', f'insert_{where} raised {type(exc).__name__}: {exc!s:.140}')
    if not isinstance(r, sf.Frame) or r is f:
        return outcome(False, f'{area}:not-a-new-Frame', f'insert returned {type(r).__name__}')
    new_cols = []
    for b in range(ncol_new):
        vals = {q: flat[a * ncol_new + b] for a, q in enumerate(order) if q != 'X'}
        new_cols.append([vals.get(i, fv) for i in range(nr)])
    labels = fm.cax.norm[:pos] + [nl(x) for x in new_labels] + fm.cax.norm[pos:]
    data = fm.data[:pos] + new_cols + fm.data[pos:]
    base = model_dtypes(fm)
    want = base[:pos] + [None] * ncol_new + base[pos:]
    exact = set(range(pos)) | set(range(pos + ncol_new, nc + ncol_new))
    o = obs_frame(r)
    sym = cmp_frame(o, fm.rax.norm, labels, data, want, fm.name, exact_cols=exact)
    if sym is not None:
        neg = kspec[0] == 'iloc' and kspec[1][1] < 0
        return outcome(False, f'{area}:{sym}:key={key_class(kspec)}' + ('-negative' if neg else ''),
                       f'insert_{where} differs from the model ({sym}); expected columns {labels} observed {str(o)[:300]}')
    return outcome(True)


def eval_series_insert(s, orig, sm, where, kspec, variant):
    import static_frame as sf
    n = sm.n
    if sm.ax.kind != 'str':
        return outcome(True, nontrivial=False, how='skip')
    m = model_label(kspec, sm.ax)
    if m[0] != 'scalar':
        return outcome(True, nontrivial=False, how='skip')
    pos = m[1] if where == 'before' else m[1] + 1
    k = {'one': 1, 'two': 2}[variant]
    new_labels = ['NEW0', 'NEW1'][:k]
    vals = _arr_vals('i' if sm.kind in 'if' else 'O', k, 800)
    cont = sf.Series(_mk_array(vals, 'i' if sm.kind in 'if' else 'O'), index=new_labels)
    key = build_label(kspec, sm.ax)
    meth = s.insert_before if where == 'before' else s.insert_after
    r, exc, mutated = run_op(lambda: meth(key, cont), s, orig)
    area = f'{PID}:Series.insert_{where}'
    neg = kspec[0] == 'iloc' and kspec[1][1] < 0
    kcls = f'key={key_class(kspec)}' + ('-negative' if neg else '')
    if mutated:
        return outcome(False, f'{area}:original-mutated', 'snapshot of the original changed by insert')
    if exc is not None:
        return outcome(False, f'{area}:raises-{type(exc).__name__}:{kcls}', f'insert raised {type(exc).__name__}: {exc!s:.140}')
    if not isinstance(r, sf.Series) or r is s:
        return outcome(False, f'{area}:not-a-new-Series', f'insert returned {type(r).__name__}')
    o = obs_series(r)
    labels = sm.ax.norm[:pos] + [nl(x) for x in new_labels] + sm.ax.norm[pos:]
    data = sm.data[:pos] + vals + sm.data[pos:]
    sym = None
    if o['rows'] != labels:
        sym = 'wrong-labels'
    elif len(o['data']) != len(data) or not all(cell_eq(a, b) for a, b in zip(o['data'], data)):
        sym = 'wrong-cells'
    elif o['name'] != sm.name:
        sym = 'name-changed'
    if sym is not None:
        return outcome(False, f'{area}:{sym}:{kcls}', f'insert_{where} differs from the model ({sym}); expected labels {labels} observed {str(o)[:300]}')
    return outcome(True)


def _astype_keys(ax):
    n = ax.n
    for j in range(n):
        yield ('lab', j)
    for seq in S.distinct_sequences(n):
        if seq:
            yield ('lablist', list(seq))
    for a in [None] + list(range(n)):
        for b in [None] + list(range(n)):
            yield ('labslice', a, b, None)
    for bits in itertools.product((False, True), repeat=n):
        yield ('bool', list(bits))
    yield ('iloc', ('slice', None, None, -1))
    yield ('iloc', ('int', -1))
    if n > 1:
        yield ('iloc', ('ilist', [-1, 0]))


INSERT_CONTAINERS = [('series', 'same', 'i', None), ('series', 'rev', 'U', None), ('series', 'partial', 'i', None), ('series', 'partial+foreign', 'f', -5), ('series', 'rot', 'O', None),
                     ('series', 'foreign', 'i', 0),
                     ('frame', 'same', 'i', None, 2), ('frame', 'rev', 'f', None, 2), ('frame', 'partial+foreign', 'U', 'F', 3), ('frame', 'rot', 'i', None, 1), ('frame', 'partial', 'i', None, 2)]
RENAMES = [dict(name='new'), dict(name=None), dict(name=('t', 1)), dict(index='IX'), dict(columns='CX'), dict(name='n2', index='IX', columns='CX'), dict(name=0)]


def _other_cases(tier):
    out = []
    mixes = ['i', 'if', 'bO', 'iii', 'ifU', 'iiii', 'iiff', 'ifUO', 'iibb'] if tier == 'quick' else MIXES['thorough'] + ['iibb']
    for kinds in mixes:
        for rows in ((3,) if tier == 'quick' else (0, 1, 2, 3, 4)):
            cols = [col_array(k, j, rows) for j, k in enumerate(kinds)]
            for lay in layouts_dtype_safe(cols):
                for cax in ('str', 'int') if len(kinds) >= 3 else ('str', 'auto'):
                    out.append(('astype', kinds, rows, [list(x) for x in lay], cax))
                out.append(('insert', kinds, rows, [list(x) for x in lay]))
                out.append(('relabel', kinds, rows, [list(x) for x in lay]))
    for kind in 'ifbUO':
        for n in (0, 1, 3, 4):
            out.append(('series', kind, n))
    return out


def run_other(repo, task):
    tier = task.get('tier', 'quick')
    rep = Report('C08-other', task,
                 rule='Frame.astype[k](dtype) for every column label / ordered label list / label slice / Boolean array / ILoc key, Frame.astype(dtype), Frame.astype({label: dtype}) with '
                      'dtype in float64 / object / str; Frame / Series relabel (partial and full mapping, function, list, IndexAutoFactory; index and/or columns), rename (name, index=, columns=), '
                      'Frame.insert_before / insert_after at every column label and ILoc position (also negative) with Series / Frame containers whose index is identical / reversed / rotated / '
                      'partial / partly or wholly foreign (default and explicit fill_value), Series.insert_before / insert_after, Series.astype; every dtype-safe block layout. '
                      'Checked: only the addressed dtypes / labels / names / inserted columns differ from the original; unaddressed columns keep values and exact dtype; original snapshot unchanged',
                 bound=f'columns <= 4, rows <= 4, tier={tier}')
    for case in rep.shard(_other_cases(tier)):
        try:
            if case[0] == 'astype':
                _, kinds, rows, lay, cax = case
                fm = FrameModel(kinds, rows, lay, 'str', cax)
                f = fm.build()
                snap = Orig(f)
                for dt in ASTYPES:
                    rp = dict(fn='astype', kinds=kinds, rows=rows, layout=lay, cax=cax, form='call', ck=None, dt=dt)
                    _record(rep, eval_astype(f, snap, fm, 'call', None, dt), rp, ('a', kinds, rows, repr(lay), cax, 'call', dt))
                    for ck in _astype_keys(fm.cax):
                        for form in ('getitem', 'mapping'):
                            rp = dict(fn='astype', kinds=kinds, rows=rows, layout=lay, cax=cax, form=form, ck=ck, dt=dt)
                            _record(rep, eval_astype(f, snap, fm, form, ck, dt), rp, ('a', kinds, rows, repr(lay), cax, form, repr(ck), dt))
            elif case[0] == 'insert':
                _, kinds, rows, lay = case
                fm = FrameModel(kinds, rows, lay)
                f = fm.build()
                snap = Orig(f)
                nc = len(kinds)
                keys = [('lab', j) for j in range(nc)] + [('iloc', ('int', p)) for p in range(-nc, nc)]
                for where in ('before', 'after'):
                    for ks in keys:
                        for cs in INSERT_CONTAINERS:
                            rp = dict(fn='insert', kinds=kinds, rows=rows, layout=lay, where=where, k=ks, cont=cs)
                            _record(rep, eval_insert(f, snap, fm, where, ks, cs), rp, ('i', kinds, rows, repr(lay), where, repr(ks), repr(cs)))
            elif case[0] == 'relabel':
                _, kinds, rows, lay = case
                for rax, cax in (('str', 'str'), ('int', 'auto'), ('auto', 'int'), ('ih', 'str')):
                    fm = FrameModel(kinds, rows, lay, rax, cax)
                    f = fm.build()
                    snap = Orig(f)
                    for hr in (None,) + RELABELS:
                        for hc in (None,) + RELABELS:
                            rp = dict(fn='relabel', c='frame', kinds=kinds, rows=rows, layout=lay, rax=rax, cax=cax, hr=hr, hc=hc)
                            _record(rep, eval_relabel(f, snap, fm, hr, hc), rp, ('r', kinds, rows, repr(lay), rax, cax, hr, hc))
                    for nk in RENAMES:
                        rp = dict(fn='rename', c='frame', kinds=kinds, rows=rows, layout=lay, rax=rax, cax=cax, names=nk)
                        _record(rep, eval_rename(f, snap, fm, nk), rp, ('n', kinds, rows, repr(lay), rax, cax, repr(nk)))
                    _final(rep, snap, case)
            elif case[0] == 'series':
                _, kind, n = case
                for axk in ('str', 'int', 'auto', 'ih'):
                    if axk == 'ih' and n == 0:
                        continue
                    sm = SeriesModel(kind, n, axk)
                    s = sm.build()
                    snap = Orig(s)
                    for hr in RELABELS:
                        rp = dict(fn='relabel', c='series', kind=kind, n=n, ax=axk, hr=hr, hc=None)
                        _record(rep, eval_relabel(s, snap, sm, hr, None), rp, ('sr', kind, n, axk, hr))
                    for nk in RENAMES:
                        rp = dict(fn='rename', c='series', kind=kind, n=n, ax=axk, names=nk)
                        _record(rep, eval_rename(s, snap, sm, nk), rp, ('sn', kind, n, axk, repr(nk)))
                    for where in ('before', 'after'):
                        for ks in [('lab', j) for j in range(n)] + [('iloc', ('int', p)) for p in range(-n, n)]:
                            for variant in ('one', 'two'):
                                rp = dict(fn='sinsert', kind=kind, n=n, ax=axk, where=where, k=ks, variant=variant)
                                _record(rep, eval_series_insert(s, snap, sm, where, ks, variant), rp, ('si', kind, n, axk, where, repr(ks), variant))
                    for dt in ASTYPES:
                        if _astype_ok(kind, dt):
                            rp = dict(fn='sastype', kind=kind, n=n, ax=axk, dt=dt)
                            _record(rep, eval_series_astype(s, snap, sm, dt), rp, ('sa', kind, n, axk, dt))
                    _final(rep, snap, case)
            _final(rep, snap, case)
        except Exception:
            rep.error(f'run_other case {case}')
    return rep.done()


def eval_series_astype(s, orig, sm, dt):
    import static_frame as sf
    tdt = str if dt == 'str' else np.dtype(dt)
    r, exc, mutated = run_op(lambda: s.astype(tdt), s, orig)
    area = f'{PID}:Series.astype'
    if mutated:
        return outcome(False, f'{area}:original-mutated', 'snapshot of the original changed by astype')
    if exc is not None:
        return outcome(False, f'{area}:raises-{type(exc).__name__}:to={dt}', f'astype raised {type(exc).__name__}: {exc!s:.140}')
    if not isinstance(r, sf.Series) or r is s:
        return outcome(False, f'{area}:not-a-new-Series', f'astype returned {type(r).__name__}')
    a = col_array(sm.kind, 0, sm.n).astype(tdt)
    o = obs_series(r)
    sym = None
    if o['rows'] != sm.ax.norm:
        sym = 'labels-changed'
    elif o['dtype'] != str(a.dtype) or not all(cell_eq(x, y) for x, y in zip(o['data'], arr_cells(a))):
        sym = 'wrong-values-or-dtype'
    elif o['name'] != sm.name:
        sym = 'name-changed'
    if sym is not None:
        return outcome(False, f'{area}:{sym}:to={dt}', f'Series.astype({dt}) differs from the model ({sym}): {str(o)[:200]}')
    return outcome(True)


# ---------------------------------------------------------------------------------------------

RUNS = ('run_assign', 'run_assign_labelled', 'run_drop_mask', 'run_other')


def run(repo, task):
    """all sub-areas in sequence (convenience; the sub-areas are meant to be registered separately)"""
    outs = [globals()[name](repo, task) for name in RUNS]
    out = dict(outs[0])
    out['name'] = 'C08-update'
    for o in outs[1:]:
        out['evaluations'] += o['evaluations']
        out['distinct'] += o['distinct']
        out['failures'] = out['failures'] + o['failures']
        out['rule'] += ' || ' + o['rule']
        out['bound'] += ' || ' + o['bound']
        out['wall_s'] += o['wall_s']
        if o['status'] != 'ok':
            out['status'] = o['status']
            out['detail'] = out.get('detail', '') + o.get('detail', '')
    return out


def replay(repo, rp):
    """re-run exactly one recorded case"""
    fn = rp.get('fn')
    if fn in ('assign', 'update'):
        if rp['c'] == 'series':
            sm = SeriesModel(rp['kind'], rp['n'], rp.get('ax', 'str'))
            s = sm.build()
            res = eval_series_update(s, Orig(s), sm, rp['iface'], rp['route'], rp['k'], rp.get('v'))
        else:
            fm = FrameModel(rp['kinds'], rp['rows'], rp['layout'], rp.get('rax', 'str'), rp.get('cax', 'str'))
            f = fm.build()
            res, _ = eval_frame_update(f, Orig(f), fm, rp['iface'], rp['route'], rp['rk'], rp['ck'], rp.get('v'), blame=False)
    elif fn == 'bloc':
        fm = FrameModel(rp['kinds'], rp['rows'], rp['layout'], rp['rax'], rp['cax'])
        f = fm.build()
        res = eval_frame_bloc(f, Orig(f), fm, rp['k'], rp['v'])
    elif fn == 'astype':
        fm = FrameModel(rp['kinds'], rp['rows'], rp['layout'], 'str', rp['cax'])
        f = fm.build()
        res = eval_astype(f, Orig(f), fm, rp['form'], rp['ck'], rp['dt'])
    elif fn == 'insert':
        fm = FrameModel(rp['kinds'], rp['rows'], rp['layout'])
        f = fm.build()
        res = eval_insert(f, Orig(f), fm, rp['where'], rp['k'], rp['cont'])
    elif fn in ('relabel', 'rename'):
        if rp['c'] == 'series':
            model = SeriesModel(rp['kind'], rp['n'], rp['ax'])
        else:
            model = FrameModel(rp['kinds'], rp['rows'], rp['layout'], rp['rax'], rp['cax'])
        c = model.build()
        res = eval_relabel(c, Orig(c), model, rp['hr'], rp['hc']) if fn == 'relabel' else eval_rename(c, Orig(c), model, rp['names'])
    elif fn == 'sinsert':
        sm = SeriesModel(rp['kind'], rp['n'], rp['ax'])
        s = sm.build()
        res = eval_series_insert(s, Orig(s), sm, rp['where'], rp['k'], rp['variant'])
    elif fn == 'sastype':
        sm = SeriesModel(rp['kind'], rp['n'], rp['ax'])
        s = sm.build()
        res = eval_series_astype(s, Orig(s), sm, rp['dt'])
    else:
        return dict(outcome='pass', note=f'no single-case replay for {fn}: re-run the stand-in')
    ok, key, what, _, how = res
    return dict(outcome='pass' if ok else 'fail', key=key, what=what, how=how)
