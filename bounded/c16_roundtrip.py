"""C16 bounded stand-in: single-table export/import round trips.

Contract (run-time, real package), reference model taken from the property statement:

  delimited   from_delimited(to_delimited(f, d, include_index=I, include_columns=C),
                             d, index_depth = I ? depth(index) : 0, columns_depth = C ? depth(columns) : 0)
              has the labels of f on every exported axis (positions 0..n-1 on an axis that was not exported),
              cell-wise equal values and, per column / per label level, the same kind of type (bool/int/float/str).
              The expected side is computed from the *case description* (plain Python data), not from the package.
  objects     to_pairs(0|1) / iter_tuple / iter_array / iter_series / iter_element_items / items exports fed to
              from_items / from_records[_items] / from_dict_records[_items] / from_element_items / from_fields
              reproduce labels and values.
  pickle      pickle.loads(pickle.dumps(x, protocol)) and copy.deepcopy(x) reproduce class, labels, values, exact
              dtypes, names; every reachable array of the copy is read-only.

Only cells whose text is unambiguous for their type are generated (no '1', 'True', 'nan', 'None' ... in string
columns or string labels, no all-empty string column, no all-NaN float column, no empty-string label).
"""
from __future__ import annotations
import io
import itertools
import numpy as np
from .common import Report, same_cell, _cell

PID = 'C16'
QUOTE = '"'

# ---------------------------------------------------------------------------------------------
# case description -> Frame  (harness side)


def _dec_val(kind, v):
    if kind == 'f':
        return float(v)          # encoded as repr strings ('nan', 'inf', '1e+300') to stay JSON-clean
    if kind == 'b':
        return bool(v)
    if kind == 'i':
        return int(v)
    if kind == 'o':
        return None if v is None else str(v)       # a string column that may hold the missing value None (object dtype)
    return str(v)


def _col_array(kind, vals):
    if kind == 'o':
        a = np.empty(len(vals), dtype=object)
        a[:] = [_dec_val(kind, v) for v in vals]
        return a
    dt = {'b': bool, 'i': np.int64, 'f': np.float64, 's': str}[kind]
    a = np.array([_dec_val(kind, v) for v in vals], dtype=dt)
    if kind == 's' and a.dtype.itemsize == 0:
        a = a.astype('<U1')
    return a


def _mk_index(levels, cls_flat, cls_hier, name=None):
    """levels: list (one per depth level) of label lists"""
    if len(levels) == 1:
        return cls_flat(levels[0], name=name)
    return cls_hier.from_labels(list(zip(*levels)), name=name)


def build_frame(case, cls=None):
    import static_frame as sf
    cls = cls or sf.Frame
    arrays = [_col_array(k, v) for k, v in case['cols']]
    go = cls is sf.FrameGO
    index = _mk_index(case['index'], sf.Index, sf.IndexHierarchy, case.get('index_name'))
    columns = _mk_index(case['columns'], sf.IndexGO if go else sf.Index, sf.IndexHierarchyGO if go else sf.IndexHierarchy, case.get('columns_name'))
    from static_frame.core.type_blocks import TypeBlocks
    tb = TypeBlocks.from_blocks(arrays, shape_reference=(len(case['index'][0]), 0))
    return cls(tb, index=index, columns=columns, name=case.get('name'), own_data=True)


# ---------------------------------------------------------------------------------------------
# strict comparison of a result Frame with the expected plain-data description

KIND_OF = {'b': 'b', 'i': 'i', 'f': 'f', 's': 'U'}


def _label_kind(v):
    return 'i' if isinstance(v, (int, np.integer)) and not isinstance(v, (bool, np.bool_)) else 'U' if isinstance(v, str) else type(v).__name__


def _axis_diff(ix, levels, n, exported, axis_name, check_kind):
    """compare an sf index with expected levels (or positions 0..n-1 when the axis was not exported)"""
    if not exported:
        levels = [list(range(n))]
    depth = len(levels)
    if ix.depth != depth:
        return f'{axis_name}-depth', f'{axis_name} depth {ix.depth} != {depth}'
    if len(ix) != n:
        return f'{axis_name}-length', f'{axis_name} length {len(ix)} != {n}'
    for d in range(depth):
        got = ix.values_at_depth(d) if depth > 1 else ix.values
        for i in range(n):
            if not same_cell(got[i], levels[d][i]) or isinstance(got[i], (bool, np.bool_)) != isinstance(levels[d][i], bool):
                return f'{axis_name}-labels', f'{axis_name} label [{i}] level {d}: got {got[i]!r} expected {levels[d][i]!r}'
            if _label_kind(got[i]) != _label_kind(levels[d][i]):
                return f'{axis_name}-labels', f'{axis_name} label [{i}] level {d}: got {got[i]!r} ({type(got[i]).__name__}) expected {levels[d][i]!r}'
        if check_kind and n:
            ek = _label_kind(levels[d][0])
            if got.dtype.kind != 'O' and got.dtype.kind != ek:
                return f'{axis_name}-kind', f'{axis_name} level {d} kind {got.dtype.kind} != {ek}'
    return None


def frame_diff(g, case, inc_index=True, inc_columns=True, check_kind=True, exact_dtype=False):
    """None when g matches the case description, else (symptom, text)"""
    import static_frame as sf
    if not isinstance(g, sf.Frame):
        return 'not-a-frame', f'result is {type(g).__name__}'
    rows, ncols = len(case['index'][0]), len(case['cols'])
    if g.shape != (rows, ncols):
        return 'shape', f'shape {g.shape} != {(rows, ncols)}'
    d = _axis_diff(g.index, case['index'], rows, inc_index, 'index', check_kind)
    if d:
        return d
    d = _axis_diff(g.columns, case['columns'], ncols, inc_columns, 'columns', check_kind)
    if d:
        return d
    for j, (kind, vals) in enumerate(case['cols']):
        col = g.iloc[:, j].values
        for i in range(rows):
            e = _dec_val(kind, vals[i])
            if not same_cell(col[i], e):
                if isinstance(e, int) and not isinstance(e, bool) and isinstance(col[i], (float, np.floating)) and float(e) == float(col[i]):
                    # the integer came back as the nearest float64 (it is beyond 2**53): a defect class of its own
                    return 'int-rounded-to-float64', f'cell [{i},{j}]: got {col[i]!r} expected {e!r}'
                return 'values', f'cell [{i},{j}]: got {col[i]!r} expected {e!r}'
        if kind == 'o':
            # strings with a missing value come back as an object column; without one nothing tells them from a plain string column
            want = 'O' if any(v is None for v in vals) else 'U'
            if check_kind and col.dtype.kind != want:
                return 'kind', f'column {j} kind {col.dtype.kind!r} ({col.dtype}) expected {want!r}'
            continue
        if check_kind and col.dtype.kind != KIND_OF[kind]:
            return 'kind', f'column {j} kind {col.dtype.kind!r} ({col.dtype}) expected {KIND_OF[kind]!r}'
        if exact_dtype and col.dtype != _col_array(kind, vals).dtype:
            return 'dtype', f'column {j} dtype {col.dtype} expected {_col_array(kind, vals).dtype}'
    return None


# ---------------------------------------------------------------------------------------------
# classification of cell texts (used for stable failure keys)

def text_class(v, delim):
    if v is None:
        return 'missing-none'
    if isinstance(v, bool):
        return 'plain'
    if isinstance(v, int):
        return 'large-int' if abs(v) >= 2 ** 31 else 'negative' if v < 0 else 'plain'
    if isinstance(v, float):
        if v != v:
            return 'nan'
        if v in (float('inf'), float('-inf')):
            return 'inf'
        if abs(v) >= 1e16 or (v != 0 and abs(v) < 1e-4):
            return 'exponent-float'
        return 'negative' if v < 0 else 'plain'
    s = v
    if s == '':
        return 'empty-string'
    if s.strip(' ') == '':
        return 'blank-string'
    c = []
    if delim in s:
        c.append('delimiter')
    if QUOTE in s:
        c.append('quote')
    if s[0] == ' ' or s[-1] == ' ':
        c.append('edge-space')
    elif ' ' in s:
        c.append('inner-space')
    if any(ch.isdigit() for ch in s):
        c.append('digit-looking')
    _SP = ('None', 'NULL', 'nan', 'NaN', 'NAN', 'inf', '-inf', 'True', 'False', '#N/A')
    if s not in _SP and any(s.startswith(p_) or s.endswith(p_) for p_ in _SP):
        c.append('resembles-missing-spelling')
    if any(ch in s for ch in ',;|\t') and delim not in s:
        c.append('other-delimiter')
    return '+'.join(c) if c else 'plain'


def pos_class(case, pos):
    """text class of the value at pos, refined by where the field sits in its written line: leading/trailing blanks are a
    different defect class at the edge of a line (first / last field) than in the interior"""
    v = _get(case, pos)
    base = text_class(v, case['delim'])
    if not isinstance(v, str) or not ('edge-space' in base or base == 'blank-string'):
        return base
    idepth = len(case['index']) if case.get('inc_i', True) else 0
    total = idepth + len(case['cols'])
    field = pos[1] if pos[0] == 'index' else idepth + (pos[1] if pos[0] == 'cell' else pos[2])
    at_edge = (v[0] == ' ' and field == 0) or (v[-1] == ' ' and field == total - 1)
    return base if at_edge else base.replace('edge-space', 'interior-edge-space').replace('blank-string', 'interior-blank-string')


PLAIN = {'b': True, 'i': 3, 'f': '1.5', 's': 'a', 'o': 'a'}


def _specials(case):
    """positions holding a non-plain value: ('cell', j, i) | ('index', d, i) | ('columns', d, j)"""
    delim = case['delim']
    out = []
    for j, (kind, vals) in enumerate(case['cols']):
        for i, v in enumerate(vals):
            if text_class(_dec_val(kind, v), delim) != 'plain':
                out.append(('cell', j, i))
    for region in ('index', 'columns'):
        for d, lev in enumerate(case[region]):
            for i, v in enumerate(lev):
                if text_class(v, delim) != 'plain':
                    out.append((region, d, i))
    return out


def _replace(case, pos):
    import copy
    c = copy.deepcopy(case)
    region, a, b = pos
    if region == 'cell':
        kind = c['cols'][a][0]
        # keep the column type-unambiguous: plain replacement values differ per row so labels stay unique
        c['cols'][a][1][b] = PLAIN[kind]
    else:
        old = c[region][a][b]
        used = set(map(repr, c[region][a]))
        ab = 'abcdefgh'[a] + 'abcdefgh'[b]
        cand = ('L' + ab, 'M' + ab) if isinstance(old, str) else (100 + 10 * a + b, 200 + 10 * a + b)
        c[region][a][b] = [x for x in cand if repr(x) not in used][0]
    return c


def _get(case, pos):
    region, a, b = pos
    return _dec_val(case['cols'][a][0], case['cols'][a][1][b]) if region == 'cell' else case[region][a][b]


def build_grown(case):
    """the same frame as build_frame(case), reached as a FrameGO that held only the first column, had its column cache read,
    and was then grown column by column (no read in between)"""
    import static_frame as sf
    first = dict(case, cols=case['cols'][:1], columns=[lev[:1] for lev in case['columns']])
    f = build_frame(first, sf.FrameGO)
    f.columns.values
    depth = len(case['columns'])
    for j in range(1, len(case['cols'])):
        label = case['columns'][0][j] if depth == 1 else tuple(lev[j] for lev in case['columns'])
        k, v = case['cols'][j]
        f[label] = _col_array(k, v)
    return f


def delim_eval(case):
    """run one delimited round trip; returns None or (symptom, text)"""
    import static_frame as sf
    f = build_grown(case) if case.get('grown') else build_frame(case)
    d = case['delim']
    inc_i, inc_c = case.get('inc_i', True), case.get('inc_c', True)
    try:
        s = io.StringIO()
        kw = dict(include_index=inc_i, include_columns=inc_c,
                  include_index_name=case.get('inc_in', True), include_columns_name=case.get('inc_cn', False))
        via = case.get('via', 'delimited')
        if via == 'csv':
            f.to_csv(s, **kw)
        elif via == 'tsv':
            f.to_tsv(s, **kw)
        else:
            f.to_delimited(s, delimiter=d, **kw)
        text = s.getvalue()
    except Exception as e:
        return 'export-raises', f'export raised {e!r}'
    try:
        s = io.StringIO(text)
        kw = dict(index_depth=len(case['index']) if inc_i else 0, columns_depth=len(case['columns']) if inc_c else 0)
        if via == 'csv':
            g = sf.Frame.from_csv(s, **kw)
        elif via == 'tsv':
            g = sf.Frame.from_tsv(s, **kw)
        else:
            g = sf.Frame.from_delimited(s, delimiter=d, **kw)
    except Exception as e:
        return 'import-raises', f'import raised {type(e).__name__}: {str(e)[:120]} for file {text!r}'
    r = frame_diff(g, case, inc_i, inc_c)
    if r:
        return r[0], r[1] + f' for file {text[:200]!r}'
    return None


def _cfg_tag(case):
    t = []
    inc_i, inc_c = case.get('inc_i', True), case.get('inc_c', True)
    if not inc_i:
        t.append('noindex')
    if not inc_c:
        t.append('nocolumns')
    if inc_i and inc_c and not case.get('inc_in', True):
        t.append('columns-name-in-apex' if case.get('inc_cn') else 'empty-apex')
    if len(case['index']) > 1 and inc_i:
        t.append('index-depth>1')
    if len(case['columns']) > 1 and inc_c:
        t.append('columns-depth>1')
    if len(case['cols']) == 1:
        t.append('1col')
    if len(case['index'][0]) == 1:
        t.append('1row')
    kinds = ''.join(sorted({k for k, _ in case['cols']}))
    if kinds != 'i':
        t.append('kinds-' + kinds)
    if inc_i and any(not isinstance(v, str) for lev in case['index'] for v in lev):
        t.append('int-index-labels')
    if inc_c and any(not isinstance(v, str) for lev in case['columns'] for v in lev):
        t.append('int-column-labels')
    return '-'.join(t) or 'default'


def _normalisations(case):
    """structure-simplifying variants of a case, tried one at a time while the failure persists"""
    import copy
    rows, m = len(case['index'][0]), len(case['cols'])

    special_cols = {p[1] for p in _specials(case) if p[0] == 'cell'}
    special_levels = {r: {p[1] for p in _specials(case) if p[0] == r} for r in ('index', 'columns')}

    def n_kinds(c):
        c['cols'] = [col if j in special_cols else ['i', [3 + i for i in range(rows)]] for j, col in enumerate(c['cols'])]

    def n_ilabels(c):
        c['index'] = [lev if d in special_levels['index'] else [f'r{"abcd"[i]}{"xyz"[d]}' for i in range(rows)] for d, lev in enumerate(c['index'])]

    def n_clabels(c):
        c['columns'] = [lev if d in special_levels['columns'] else [f'c{"abcd"[j]}{"xyz"[d]}' for j in range(m)] for d, lev in enumerate(c['columns'])]

    def n_idepth(c):
        if len(c['index']) > 1 and len(special_levels['index']) <= 1:
            c['index'] = [c['index'][d] for d in special_levels['index']] or [[f'r{"abcd"[i]}' for i in range(rows)]]

    def n_cdepth(c):
        if len(c['columns']) > 1 and len(special_levels['columns']) <= 1:
            c['columns'] = [c['columns'][d] for d in special_levels['columns']] or [[f'c{"abcd"[j]}' for j in range(m)]]

    def n_apex(c):
        c['inc_in'], c['inc_cn'] = True, False

    def n_inc_c(c):
        c['inc_c'] = True

    def n_inc_i(c):
        c['inc_i'] = True

    def n_rows(c):
        if rows == 1:
            for k, vals in c['cols']:
                vals.append(vals[0] if k != 's' else 'zq')
            for d, lev in enumerate(c['index']):
                lev.append('rzz' if isinstance(lev[0], str) else 991)

    def n_cols(c):
        if m == 1:
            c['cols'].append(['i', [3 + i for i in range(rows)]])
            for lev in c['columns']:
                lev.append('czz' if isinstance(lev[0], str) else 992)

    for fn in (n_kinds, n_ilabels, n_clabels, n_idepth, n_cdepth, n_apex, n_inc_c, n_inc_i, n_rows, n_cols):
        c = copy.deepcopy(case)
        fn(c)
        if c != case:
            yield c


def _cat(t):
    return 'empty' if t == '' else 'blank' if t.strip(' ') == '' else 'edge' if t[0] == ' ' or t[-1] == ' ' else 'text'


def _unique_labels(case):
    for region in ('index', 'columns'):
        lv = case[region]
        n = len(lv[0])
        if len({tuple(repr(l[i]) for l in lv) for i in range(n)}) < n:
            return False
    return True


_KEY_MEMO = {}
_KNOWN = set()


def delim_key(case):
    """stable defect-class key for a failing case: greedy minimisation of (1) the special values, (2) the characters of
    the remaining special strings, (3) structure/configuration; the tab path is named only when ',' does not fail too"""
    import copy

    def fails(c):
        try:
            return _unambiguous(c) and _unique_labels(c) and delim_eval(c) is not None
        except Exception:
            return False

    cur = case
    for pos in _specials(case):
        try:
            cand = _replace(cur, pos)
        except Exception:
            continue
        if fails(cand):
            cur = cand
    memo_key = repr(sorted(cur.items()))
    if memo_key in _KEY_MEMO:
        return _KEY_MEMO[memo_key]
    # character-level reduction of the surviving special strings
    for pos in _specials(cur):
        v = _get(cur, pos)
        if not isinstance(v, str):
            continue
        changed = True
        while changed:
            changed = False
            v = _get(cur, pos)
            for k in range(len(v)):
                t = v[:k] + v[k + 1:]
                if text_class(t, cur['delim']) == 'plain' or _cat(t) != _cat(v):
                    continue
                cand = copy.deepcopy(cur)
                if pos[0] == 'cell':
                    cand['cols'][pos[1]][1][pos[2]] = t
                else:
                    cand[pos[0]][pos[1]][pos[2]] = t
                if fails(cand):
                    cur, changed = cand, True
                    break
    # structure / configuration
    progress = True
    while progress:
        progress = False
        for cand in _normalisations(cur):
            if len(_specials(cand)) == len(_specials(cur)) and fails(cand):
                cur, progress = cand, True
                break
    path = 'delimited'
    if cur['delim'] == '\t':
        alt = copy.deepcopy(cur)
        alt['delim'], alt['via'] = ',', 'csv'
        for k, vals in alt['cols']:
            if k == 's':
                vals[:] = [x.replace(',', ';').replace('\t', ',') for x in vals]
        for region in ('index', 'columns'):
            for lev in alt[region]:
                lev[:] = [x.replace(',', ';').replace('\t', ',') if isinstance(x, str) else x for x in lev]
        if fails(alt):
            cur = alt
        else:
            path = 'tsv'
    rest = _specials(cur)
    if rest:
        classes = sorted({f'{p[0]}:{pos_class(cur, p)}' for p in rest})
        out = f'{PID}:{path}:' + ','.join(classes), cur
    else:
        out = f'{PID}:{path}:plain:{_cfg_tag(cur)}', cur
    _KEY_MEMO[memo_key] = out
    return out


# ---------------------------------------------------------------------------------------------
# enumeration of delimited cases

def _other(d):
    return ';' if d == ',' else ','


def str_alphabet(d, tier):
    base = ['a', '', 'a b', d, 'x"y', ' a', 'a ', '1a']
    more = [' ', 'a' + d + 'b', QUOTE, '"q"', d + QUOTE, _other(d), 'v2', 'b c ' + d]
    return base + (more if tier != 'quick' else [])


def str_specials(d):
    return ['', ' ', 'a b', ' a', 'a ', '  a  b ', d, 'a' + d + 'b', d + d, QUOTE, 'x"y', '"q"', '""', d + QUOTE, QUOTE + d + QUOTE,
            'a "b' + d + ' c"', '1a', 'v2', '1-2', '1 2', _other(d), 'a' + _other(d), "it's", '#x', 'a#', 'é', 'A_b.c',
            # ordinary words that merely BEGIN (or end) like a spelling of a missing value / infinity / Boolean
            'Nonexistent', 'NULLABLE', 'information', '-infinity', 'nanometer', 'NaNs', 'Trueish', 'xNone']


def label_specials(d):
    return ['a b', ' a', 'a ', 'a' + d + 'b', d, 'x"y', QUOTE, '1a', 'v2', _other(d), '#x', "it's", '__index0__', 'é', 'Nonexistent', 'information']


POOLS = {
    'b': [[True, False, True], [False, False, True], [True, True, False]],
    'i': [[0, -7, 2 ** 53 + 1], [-1, 2 ** 62 + 1, 5], [123456789, 0, -2 ** 40]],     # (integers a float64 cannot hold)
    'f': [['1.5', 'nan', '-1e+300'], ['nan', '3.0', '0.1'], ['-2.25', '1e-300', 'nan'], ['inf', '-inf', '2.5'], ['123456789012345.6', '-0.0', '1e+22']],
    's': [['a', 'b c', 'de'], ['x"y', 'a', ''], ['', 'p', 'q r'], [' a', 'zz', 'a '], ['k', 'a,b;c', 'w\tv']],
}


def _lev(kind, n, tag):
    return [tag + 'abcd'[i] for i in range(n)] if kind == 's' else [(4, 0, 12, 7)[i] + (0 if tag == 'r' else 20) for i in range(n)]


def index_variants(n, tier):
    out = [[_lev('s', n, 'r')], [_lev('i', n, 'r')],
           [['g'] * max(n - 1, 1) + ['h'] * (n - max(n - 1, 1)), _lev('i', n, 'r')],
           [['g'] * n, [1] * (n - 1) + [2], _lev('s', n, 'r')]]
    if tier != 'quick':
        out.append([_lev('i', n, 'r'), _lev('s', n, 'r')])
        out.append([_lev('s', n, 'r'), ['u'] * n, _lev('i', n, 'r')])
    return out


def columns_variants(m, tier):
    out = [[_lev('s', m, 'c')], [_lev('i', m, 'c')], [['G'] * m, _lev('i', m, 'c')]]
    if tier != 'quick':
        out.append([_lev('s', m, 'c'), [5] * m])
        out.append([['G'] * max(m - 1, 1) + ['H'] * (m - max(m - 1, 1)), _lev('s', m, 'c')])
    return out


CONFIGS = [dict(inc_i=True, inc_c=True, inc_in=True, inc_cn=False),
           dict(inc_i=True, inc_c=True, inc_in=False, inc_cn=False),
           dict(inc_i=True, inc_c=True, inc_in=False, inc_cn=True),
           dict(inc_i=True, inc_c=False),
           dict(inc_i=False, inc_c=True),
           dict(inc_i=False, inc_c=False)]

DELIMS = {'quick': [(',', 'csv'), ('\t', 'tsv'), (';', 'delimited')],
          'thorough': [(',', 'csv'), ('\t', 'tsv'), (';', 'delimited'), ('|', 'delimited'), (',', 'delimited'), ('\t', 'delimited')]}


def _unambiguous(case):
    """precondition of the property: every str column has >= 1 non-blank cell, every float column >= 1 non-NaN cell"""
    for kind, vals in case['cols']:
        if kind == 's' and all(str(v).strip(' ') == '' for v in vals):
            return False
        if kind == 'f' and all(float(v) != float(v) for v in vals):
            return False
    return True


def cases_delimited(tier):
    quick = tier == 'quick'
    delims = DELIMS['quick' if quick else 'thorough']
    # phase A: one special string at every cell position of small frames, 4 include configurations
    for d, via in delims:
        for shape_kinds in (['s'], ['s', 's'], ['i', 's'], ['s', 'f'], ['s', 'b', 's']):
            for rows in (2, 3) if not quick else (2,):
                for sp in str_specials(d):
                    for j, k in enumerate(shape_kinds):
                        if k != 's':
                            continue
                        for i in range(rows):
                            cols = [[kk, list(POOLS[kk][0][:rows])] if kk != 's' else ['s', ['a', 'bc', 'd'][:rows]] for kk in shape_kinds]
                            cols[j][1][i] = sp
                            for cfg in (CONFIGS[0], CONFIGS[3], CONFIGS[4], CONFIGS[5]):
                                yield dict(area='delim', phase='A', delim=d, via=via, cols=cols, index=[_lev('s', rows, 'r')],
                                           columns=[_lev('s', len(cols), 'c')], **cfg)
    # phase B: every assignment of the alphabet to a 2x2 block of string cells
    for d, via in delims[:3] if quick else delims[:4]:
        alpha = str_alphabet(d, tier)
        for cells in itertools.product(alpha, repeat=4):
            yield dict(area='delim', phase='B', delim=d, via=via, cols=[['s', [cells[0], cells[1]]], ['s', [cells[2], cells[3]]]],
                       index=[['ra', 'rb']], columns=[['ca', 'cb']], **CONFIGS[0])
    # phase C: column kinds x value pools x label kinds/depths x configurations
    for d, via in delims:
        for m in (1, 2, 3):
            kinds_iter = list(itertools.product('bifs', repeat=m))
            if m == 3 and quick:
                kinds_iter = [k for n, k in enumerate(kinds_iter) if n % 7 == 3]
            for kinds in kinds_iter:
                for rows in (1, 3) if quick else (1, 2, 3):
                    for v in range(2 if quick else 3):
                        cols = []
                        for j, k in enumerate(kinds):
                            pool = POOLS[k][(v + j) % len(POOLS[k])]
                            vals = list(pool[(v + j) % 3:] + pool[:(v + j) % 3])[:rows]
                            if k == 's':
                                vals = [x.replace(',', d).replace('\t', _other(d)) for x in vals]
                            cols.append([k, vals])
                        for iv, ixl in enumerate(index_variants(rows, tier)):
                            for cv, cl in enumerate(columns_variants(m, tier)):
                                for cfg in CONFIGS:
                                    if quick and (iv + cv) % 2 and cfg is not CONFIGS[0] and cfg is not CONFIGS[4]:
                                        continue
                                    yield dict(area='delim', phase='C', delim=d, via=via, cols=cols, index=ixl, columns=cl, **cfg)
    # phase E: a missing value (None) at every cell of string columns; all-string files and files with a typed column next to them
    for d, via in delims:
        for shape_kinds in (['o'], ['o', 's'], ['s', 'o'], ['o', 'o'], ['o', 'i'], ['f', 'o']):
            for rows in (2, 3):
                for j, k in enumerate(shape_kinds):
                    if k != 'o':
                        continue
                    for i in range(rows):
                        cols = [[kk, list(POOLS[kk][0][:rows])] if kk not in 'so' else [kk, ['a', 'bc', 'd'][:rows]] for kk in shape_kinds]
                        cols[j][1][i] = None
                        for cfg in (CONFIGS[0], CONFIGS[3], CONFIGS[4], CONFIGS[5]):
                            for ixl in ([_lev('s', rows, 'r')], [_lev('i', rows, 'r')]):
                                yield dict(area='delim', phase='E', delim=d, via=via, cols=cols, index=ixl, columns=[_lev('s', len(cols), 'c')], **cfg)
    # phase D: special labels at every label position and level
    for d, via in delims:
        for idepth in (1, 2, 3):
            for cdepth in (1, 2):
                rows, m = 2, 2
                base_i = [['g', 'g'], [1, 2], ['ra', 'rb']][3 - idepth:]
                base_c = [['G', 'G'], ['ca', 'cb']][2 - cdepth:]
                specs = [(s_, 's') for s_ in label_specials(d)] + [(-3, 'i'), (0, 'i'), (10 ** 12, 'i'), (2 ** 62, 'i')]
                for region, base in (('index', base_i), ('columns', base_c)):
                    for lev in range(len(base)):
                        for pos in range(2):
                            for sp, sk in specs:
                                # a level keeps one label type: replace the whole level when the type changes
                                import copy
                                c = dict(area='delim', phase='D', delim=d, via=via, cols=[['i', [1, -2]], ['f', ['0.5', 'nan']]],
                                         index=copy.deepcopy(base_i), columns=copy.deepcopy(base_c))
                                target = c[region][lev]
                                if (sk == 's') != isinstance(target[0], str):
                                    target[:] = ['qa', 'qb'] if sk == 's' else [40, 41]
                                target[pos] = sp
                                if len({(tuple(l[i] for l in c[region])) for i in range(2)}) < 2:
                                    continue
                                for cfg in (CONFIGS[0], CONFIGS[1], CONFIGS[3], CONFIGS[4]):
                                    if cfg.get('inc_i', True) is False and region == 'index':
                                        continue
                                    if cfg.get('inc_c', True) is False and region == 'columns':
                                        continue
                                    yield dict(c, **cfg)


def eval_delimited(rep, case):
    if not _unambiguous(case):
        return
    try:
        r = delim_eval(case)
    except Exception:
        rep.error(f'delimited harness {case}')
        return
    nontrivial = len(_specials(case)) > 0 or case['phase'] == 'C'
    rep.count(distinct_key=repr(sorted(case.items())) if nontrivial else None,
              sample=dict(delim=case['delim'], cols=case['cols'], index=case['index'], columns=case['columns']))
    if r is None and len(case['cols']) >= 2 and not case.get('grown') and (len(repr(case)) % 3 == 0):
        # the same content reached as a grown FrameGO (stale caches must not show in the file)
        g_case = dict(case, grown=True)
        try:
            rg = delim_eval(g_case)
        except Exception:
            rep.error(f'delimited harness (grown) {case}')
            return
        rep.count(distinct_key=repr(sorted(g_case.items(), key=str)) if nontrivial else None)
        if rg is not None:
            rep.fail(f'C16:delimited:grown-frame-go:{rg[0]}', f'{case.get("via")}/{case["delim"]!r} round trip of a FrameGO grown column by column differs ({rg[0]}): {rg[1]}', dict(case=g_case))
        return
    if r is not None:
        try:
            # shortcut: if neutralising every special value of an already-keyed singleton class makes the case pass,
            # the failure is explained by keys recorded earlier in this run (deterministic: enumeration order is fixed)
            cur, touched = case, False
            for pos in _specials(case):
                cls_ = pos_class(case, pos)
                if ('delimited', pos[0], cls_) in _KNOWN or (case['delim'] == '\t' and ('tsv', pos[0], cls_) in _KNOWN):
                    cur, touched = _replace(cur, pos), True
            if touched and _unique_labels(cur):
                if delim_eval(cur) is None:
                    return
                case = cur
            key, mini = delim_key(case)
            rest = _specials(mini)
            if len(rest) == 1:
                _KNOWN.add((key.split(':')[1], rest[0][0], pos_class(mini, rest[0])))
        except Exception:
            rep.error(f'delimited minimisation {case}')
            return
        r2 = delim_eval(mini) or r
        rep.fail(key, f'{mini.get("via")}/{mini["delim"]!r} round trip differs ({r2[0]}): {r2[1]}', dict(case=mini))


# ---------------------------------------------------------------------------------------------
# objects: pairs / records / items

def _labels(case, region):
    lv = case[region]
    n = len(lv[0])
    return [lv[0][i] if len(lv) == 1 else tuple(l[i] for l in lv) for i in range(n)]


def object_routes():
    import static_frame as sf

    def ctor(case):
        kw = {}
        if len(case['index']) > 1:
            kw['index_constructor'] = sf.IndexHierarchy.from_labels
        if len(case['columns']) > 1:
            kw['columns_constructor'] = sf.IndexHierarchy.from_labels
        return kw

    def only(kw, *names):
        return {k: v for k, v in kw.items() if k in names}

    def pairs0_items(f, case):
        pairs = f.to_pairs(0)
        idx = [i for i, _ in pairs[0][1]]
        return sf.Frame.from_items(((c, [v for _, v in items]) for c, items in pairs), index=idx, **ctor(case))

    def pairs0_items_series(f, case):
        pairs = f.to_pairs(0)
        kw = ctor(case)
        idx = f.index
        return sf.Frame.from_items(((c, sf.Series.from_items(items, **({'index_constructor': sf.IndexHierarchy.from_labels} if len(case['index']) > 1 else {})))
                                    for c, items in pairs), index=idx, **only(kw, 'columns_constructor'))

    def pairs0_dict(f, case):
        pairs = f.to_pairs(0)
        idx = [i for i, _ in pairs[0][1]]
        return sf.Frame.from_dict({c: [v for _, v in items] for c, items in pairs}, index=idx, **ctor(case))

    def pairs1_records_items(f, case):
        pairs = f.to_pairs(1)
        cols = [c for c, _ in pairs[0][1]]
        return sf.Frame.from_records_items(((i, [v for _, v in items]) for i, items in pairs), columns=cols, **ctor(case))

    def pairs1_dict_records_items(f, case):
        pairs = f.to_pairs(1)
        g = sf.Frame.from_dict_records_items(((i, dict(items)) for i, items in pairs))
        kw = ctor(case)
        if kw:  # from_dict_records_items takes no constructors: rebuild hierarchies from the tuple labels
            g = g.relabel(index=kw['index_constructor'](g.index.values) if 'index_constructor' in kw else None,
                          columns=kw['columns_constructor'](g.columns.values) if 'columns_constructor' in kw else None)
        return g

    def _tuple_kw(case):
        # namedtuple rows need identifier-like flat labels; the API asks for constructor=tuple otherwise
        flat_str = len(case['columns']) == 1 and all(isinstance(v, str) for v in case['columns'][0])
        return {} if flat_str else dict(constructor=tuple)

    def tuples_records(f, case):
        return sf.Frame.from_records(f.iter_tuple(axis=1, **_tuple_kw(case)), index=_labels(case, 'index'), columns=_labels(case, 'columns'), **ctor(case))

    def namedtuples_records(f, case):
        if _tuple_kw(case):
            return sf.Frame.from_records(tuple(f.iter_tuple(axis=1, constructor=tuple)), index=f.index, columns=f.columns)
        return sf.Frame.from_records(f.iter_tuple(axis=1), index=_labels(case, 'index'), **only(ctor(case), 'index_constructor'))

    def tuple_items_records_items(f, case):
        return sf.Frame.from_records_items(f.iter_tuple_items(axis=1, **_tuple_kw(case)), columns=_labels(case, 'columns'), **ctor(case))

    def arrays_records(f, case):
        return sf.Frame.from_records(list(f.iter_array(axis=1)), index=_labels(case, 'index'), columns=_labels(case, 'columns'), **ctor(case))

    def series_dict_records(f, case):
        kw = ctor(case)
        return sf.Frame.from_dict_records([dict(s.items()) for s in f.iter_series(axis=1)], index=_labels(case, 'index'), **kw)

    def series_items_dict_records(f, case):
        return sf.Frame.from_dict_records((dict(s.items()) for _, s in f.iter_series_items(axis=1)), index=f.index,
                                          **only(ctor(case), 'columns_constructor'))

    def array_items_items(f, case):
        return sf.Frame.from_items(f.iter_array_items(axis=0), index=_labels(case, 'index'), **ctor(case))

    def items_items(f, case):
        return sf.Frame.from_items(f.items(), index=f.index, **only(ctor(case), 'columns_constructor'))

    def fields(f, case):
        return sf.Frame.from_fields(f.iter_array(axis=0), index=_labels(case, 'index'), columns=_labels(case, 'columns'), **ctor(case))

    def element_items(f, case):
        return sf.Frame.from_element_items(f.iter_element_items(), index=f.index, columns=f.columns, dtype=object)

    def concat_series(f, case):
        return sf.Frame.from_concat(f.iter_series(axis=1), index=f.index)

    def concat_items_cols(f, case):
        return sf.Frame.from_concat(tuple(f.iter_series(axis=0)), axis=1, columns=f.columns)

    return dict(pairs0_items=pairs0_items, pairs0_items_series=pairs0_items_series, pairs0_dict=pairs0_dict,
                pairs1_records_items=pairs1_records_items, pairs1_dict_records_items=pairs1_dict_records_items,
                tuples_records=tuples_records, namedtuples_records=namedtuples_records, tuple_items_records_items=tuple_items_records_items,
                arrays_records=arrays_records, series_dict_records=series_dict_records,
                series_items_dict_records=series_items_dict_records, array_items_items=array_items_items,
                items_items=items_items, fields=fields, element_items=element_items,
                concat_series=concat_series, concat_columns=concat_items_cols)


def cases_frames(tier):
    """typed frames for the object/pickle areas"""
    quick = tier == 'quick'
    for m in (1, 2, 3):
        kinds_iter = list(itertools.product('bifs', repeat=m))
        if m == 3 and quick:
            kinds_iter = [k for n, k in enumerate(kinds_iter) if n % 3 == 1]
        for kinds in kinds_iter:
            for rows in (1, 2, 3):
                for v in range(2 if quick else 4):
                    cols = []
                    for j, k in enumerate(kinds):
                        pool = POOLS[k][(v + j) % len(POOLS[k])]
                        cols.append([k, list(pool[(v + j) % 3:] + pool[:(v + j) % 3])[:rows]])
                    ivs, cvs = index_variants(rows, 'thorough'), columns_variants(m, 'thorough')
                    for iv, ixl in enumerate(ivs):
                        for cv, cl in enumerate(cvs):
                            if quick and (iv * len(cvs) + cv + v) % 3:
                                continue
                            yield dict(cols=cols, index=ixl, columns=cl)


def eval_objects(rep, case, routes):
    try:
        f = build_frame(case)
    except Exception:
        rep.error(f'objects build {case}')
        return
    for name, route in routes.items():
        rep.count(distinct_key=(name, repr(case)), sample=dict(route=name, cols=case['cols']))
        try:
            g = route(f, case)
        except Exception as e:
            rep.fail(f'{PID}:objects:{name}:raises-{type(e).__name__}', f'{name} raised {e!r} for {case}', dict(area='objects', route=name, case=case))
            continue
        try:
            r = frame_diff(g, case, check_kind=False)
        except Exception:
            rep.error(f'objects compare {name} {case}')
            continue
        if r:
            rep.fail(f'{PID}:objects:{name}:{r[0]}', f'{name}: {r[1]} for {case}', dict(area='objects', route=name, case=case))


# ---------------------------------------------------------------------------------------------
# pickle / deepcopy

def _names_of(x):
    import static_frame as sf
    if isinstance(x, sf.Frame):
        return (x.name, x.index.name, x.columns.name, tuple(x.index.names), tuple(x.columns.names))
    if isinstance(x, sf.Series):
        return (x.name, x.index.name, tuple(x.index.names))
    return (x.name, tuple(x.names))


def _deep_state(x):
    """class, names, per-array (dtype, shape, cells) of the container"""
    import static_frame as sf
    if isinstance(x, sf.Frame):
        return (type(x).__name__, _names_of(x), x.shape, _deep_state(x.index), _deep_state(x.columns),
                tuple((str(b.dtype), b.shape, tuple(_cell(v) for v in b.ravel().tolist())) for b in x._blocks._blocks))
    if isinstance(x, sf.Series):
        return (type(x).__name__, _names_of(x), _deep_state(x.index), str(x.values.dtype), tuple(_cell(v) for v in x.values.tolist()))
    if isinstance(x, sf.IndexHierarchy):
        return (type(x).__name__, _names_of(x), x.depth, tuple(str(d) for d in x.dtypes.values),
                tuple(tuple(_cell(v) for v in row) for row in x.values.tolist()),
                tuple(type(x.index_types.values[d]).__name__ + ':' + x.index_types.values[d].__name__ for d in range(x.depth)))
    return (type(x).__name__, _names_of(x), str(x.values.dtype), tuple(_cell(v) for v in x.values.tolist()))


def named_arrays(c, prefix=''):
    """(role, ndarray) for every array obtainable through the public surface; role names the kind of array"""
    import static_frame as sf
    out = []
    if isinstance(c, sf.Frame):
        out.append(('values', c.values))
        out.extend(('block', b) for b in c._blocks._blocks)
        out.extend(named_arrays(c.index))
        out.extend(named_arrays(c.columns))
    elif isinstance(c, sf.Series):
        out.append(('values', c.values))
        out.extend(named_arrays(c.index))
    elif isinstance(c, sf.IndexHierarchy):
        out.append(('labels', c.values))
        out.append(('positions', c.positions))
        out.extend(('depth-labels', c.values_at_depth(d)) for d in range(c.depth))
    elif isinstance(c, sf.Index):
        out.append(('labels', c.values))
        out.append(('positions', c.positions))
    return out


def pickle_subjects(case, variant):
    """containers derived from a case: Frame / FrameGO with names, a column Series, a row Series, both indexes"""
    import static_frame as sf
    named = dict(case, name=('frame', 1) if variant % 2 else 'fr',
                 index_name=tuple(f'I{d}' for d in range(len(case['index']))) if len(case['index']) > 1 else 'idx',
                 columns_name=tuple(f'C{d}' for d in range(len(case['columns']))) if len(case['columns']) > 1 else ('cols' if variant % 2 else 7))
    f = build_frame(named)
    out = [('frame', f), ('frame_go', build_frame(named, sf.FrameGO)), ('frame_unnamed', build_frame(case)),
           ('series_col', f.iloc[:, 0]), ('series_row', f.iloc[0]), ('index', f.index), ('columns', f.columns),
           ('frame_sel', f.iloc[::-1, ::-1]), ('frame_T', f.T)]
    # one array OBJECT held at two block positions (a duplicated column of a grow-only frame), followed by further blocks
    g = build_frame(named, sf.FrameGO)
    first = g.columns.values[0] if g.columns.depth == 1 else tuple(g.columns.values[0])
    dup = ('dup',) * g.columns.depth if g.columns.depth > 1 else 'dup'
    g[dup] = g[first]
    for k in range(2):
        g[(f'more{k}',) * g.columns.depth if g.columns.depth > 1 else f'more{k}'] = np.arange(len(g.index)) + k
    out.append(('frame_go_shared_array', g))
    return out


def eval_pickle(rep, case, variant=0):
    import pickle
    import copy
    import static_frame as sf
    try:
        subjects = pickle_subjects(case, variant)
    except Exception:
        rep.error(f'pickle build {case}')
        return
    for sname, x in subjects:
        try:
            want = _deep_state(x)
        except Exception:
            rep.error(f'pickle state {sname} {case}')
            continue
        for how in ('p2', 'p4', 'p5', 'deepcopy', 'copy'):
            rp = dict(area='pickle', case=case, variant=variant, subject=sname, how=how)
            rep.count(distinct_key=(sname, how, repr(case)), sample=dict(subject=sname, how=how, cols=case['cols']))
            kind = sname.split('_')[0]
            try:
                y = copy.deepcopy(x) if how == 'deepcopy' else copy.copy(x) if how == 'copy' else pickle.loads(pickle.dumps(x, protocol=int(how[1:])))
            except Exception as e:
                rep.fail(f'{PID}:pickle:{kind}:{how}-raises-{type(e).__name__}', f'{how} of {sname} raised {e!r} ({case})', rp)
                continue
            try:
                got = _deep_state(y)
                if got != want:
                    part = [n for n, (a, b) in zip(('class', 'names', 'f2', 'f3', 'f4', 'f5'), zip(got, want)) if a != b]
                    rep.fail(f'{PID}:pickle:{kind}:{"copy" if how in ("copy", "deepcopy") else "pickle"}-state-differs',
                             f'{how} of {sname} differs in {part}: {str(got)[:300]} vs {str(want)[:300]}', rp)
                for role, a in named_arrays(y):
                    tag = 'copy' if how in ('copy', 'deepcopy') else 'pickle'
                    if a.flags.writeable:
                        rep.fail(f'{PID}:pickle:{tag}-writeable-array:{role}', f'{how} of {sname}: reachable array `{role}` is writeable ({case})', rp)
                    elif a.size and how != 'copy':
                        try:
                            a[(0,) * a.ndim] = a[(0,) * a.ndim]
                            rep.fail(f'{PID}:pickle:{tag}-array-accepts-write:{role}', f'{how} of {sname}: array `{role}` accepted an element write ({case})', rp)
                        except (ValueError, RuntimeError):
                            pass
                if isinstance(y, sf.Frame):
                    # the restored Frame must still be operational: selection and label lookup
                    lab_i, lab_c = y.index.values[-1] if y.index.depth == 1 else tuple(y.index.values[-1]), y.columns.values[0] if y.columns.depth == 1 else tuple(y.columns.values[0])
                    rep.check(same_cell(y.loc[lab_i, lab_c], x.iloc[-1, 0]), f'{PID}:pickle:{kind}:lookup-after-restore',
                              f'{how} of {sname}: loc lookup after restore differs ({case})', rp)
            except Exception as e:
                rep.fail(f'{PID}:pickle:{kind}:restored-object-broken-{type(e).__name__}', f'{how} of {sname}: using the restored object raised {e!r} ({case})', rp)


# ---------------------------------------------------------------------------------------------
# drivers

RULE_D = ('delimited: A one special string (27 texts) at every cell of small frames x 4 include configs; B every alphabet^4 assignment to a '
          '2x2 string block; C column kinds {bool,int,float,str}^m (m<=3) x value pools (negative/large/NaN/inf/exponent) x index '
          'depth 1-3 x columns depth 1-2 x str/int labels x 6 include configs; D special labels at every level/position. '
          'Non-trivial: case holds >= 1 non-plain value or is a typed phase-C frame; ambiguous columns (all-blank str, all-NaN float) are skipped uncounted')
BOUND_D = 'rows <= 3, columns <= 3, delimiters {",", TAB, ";"} (+ "|" and from_delimited forms in thorough), string alphabet 8 (quick) / 16 (thorough)'


def run_delimited(repo, task):
    rep = Report('C16-delimited', task, rule=RULE_D + ' Added: for a third of the passing cases the same content is exported from a FrameGO that held only the first column, had its column cache read, and was then grown column by column.', bound=BOUND_D)
    for case in rep.shard(cases_delimited(task.get('tier', 'quick'))):
        eval_delimited(rep, case)
    return rep.done()


def run_objects(repo, task):
    rep = Report('C16-objects', task,
                 rule='every typed frame (kinds^m, m<=3, rows 1-3, value pools, index depth 1-3, columns depth 1-2) x 17 export->import routes '
                      '(to_pairs(0|1), iter_tuple, iter_array, iter_series, items, iter_element_items -> from_items/from_dict/from_records[_items]/'
                      'from_dict_records[_items]/from_fields/from_element_items/from_concat); every case non-trivial (>= 1 cell compared)',
                 bound='rows <= 3, columns <= 3, kinds {bool,int64,float64,str}')
    routes = None
    for case in rep.shard(cases_frames(task.get('tier', 'quick'))):
        if routes is None:
            try:
                routes = object_routes()
            except Exception:
                rep.error('object_routes')
                break
        eval_objects(rep, case, routes)
    return rep.done()


def run_pickle(repo, task):
    rep = Report('C16-pickle', task,
                 rule='every typed frame (as objects area) x 9 derived containers (Frame, FrameGO, unnamed, column/row Series, Index/IndexHierarchy of '
                      'both axes, reversed selection, transpose) x {pickle protocol 2,4,5, deepcopy, copy}: class, names, exact dtypes, labels, '
                      'values equal; all reachable arrays read-only and refusing writes; loc lookup works after restore',
                 bound='rows <= 3, columns <= 3, kinds {bool,int64,float64,str}, label depth <= 3')
    for n, case in enumerate(rep.shard(cases_frames(task.get('tier', 'quick')))):
        eval_pickle(rep, case, n % 2)
    return rep.done()


def run(repo, task):
    """all three areas in one report"""
    tier = task.get('tier', 'quick')
    rep = Report('C16-roundtrip', task, rule=RULE_D + ' | objects and pickle areas: see run_objects / run_pickle', bound=BOUND_D)
    routes = object_routes()
    stream = itertools.chain((('d', c) for c in cases_delimited(tier)),
                             (('o', c) for c in cases_frames(tier)),
                             (('p', c) for c in cases_frames(tier)))
    for n, (area, case) in enumerate(rep.shard(stream)):
        if area == 'd':
            eval_delimited(rep, case)
        elif area == 'o':
            eval_objects(rep, case, routes)
        else:
            eval_pickle(rep, case, n % 2)
    return rep.done()


def replay(repo, rp):
    area = rp.get('area') or rp['case'].get('area', 'delim')
    if area == 'delim':
        r = delim_eval(rp['case'])
        return dict(outcome='fail' if r else 'pass', detail=None if r is None else f'{r[0]}: {r[1]}')
    rep = Report('C16-replay', dict(tier='quick'), rule='', bound='')
    if area == 'objects':
        routes = object_routes()
        eval_objects(rep, rp['case'], {rp['route']: routes[rp['route']]})
    else:
        eval_pickle(rep, rp['case'], rp.get('variant', 0))
        rep.failures = {k: v for k, v in rep.failures.items() if v['replay'].get('subject') == rp['subject'] and v['replay'].get('how') == rp['how']}
    out = rep.done()
    if out['status'] != 'ok':
        return dict(outcome='error', detail=out.get('detail'))
    return dict(outcome='fail' if out['failures'] else 'pass', detail=[f['what'][:300] for f in out['failures']])
