"""C04 bounded stand-in: selection returns exactly the addressed rows/columns with their labels.

Reference-model contract evaluated on the REAL package: a Series is modelled as (labels, values, name),
a Frame as (row labels, column labels, per-column value lists, name); every key is described by a small
JSON-able *spec*, turned into (a) the real key object handed to `.iloc[] / .loc[] / [] / .bloc[]` and
(b) the list of addressed positions computed on plain Python lists (`list(range(n))[slice]`, dict look-ups).
The observed result is compared label-by-label and cell-by-cell with the model.

Sub-areas (each a registered run function):
  run_iloc  positional keys (ints, every slice, int lists/arrays, Boolean arrays) on Series and on both Frame
            axes, over every dtype-safe block layout
  run_loc   label keys (labels, lists/arrays/Index of labels, inclusive label slices, Boolean array/Series/Index,
            ILoc wrappers, absent labels, HLoc) on flat str / int / auto-integer / datetime64 / hierarchical
            axes, loc and getitem routes, incl. datetime string/date/coarser-resolution keys
  run_bloc  2-D Boolean selection (array and Frame keys with reordered / partially overlapping labels)
"""
from __future__ import annotations
import datetime
import itertools

import numpy as np

from .common import Report, layouts_dtype_safe, frame_from, same_cell

PID = 'C04'

# ---------------------------------------------------------------------------------------------
# data

def col_values(kind, j, rows):
    """python cell values of column j (distinct per cell where the dtype allows it)"""
    if kind == 'i':
        return [100 * (j + 1) + i for i in range(rows)]
    if kind == 'f':
        return [float('nan') if (i + j) % 4 == 3 else (j + 1) + i / 8 + 0.5 for i in range(rows)]
    if kind == 'b':
        return [bool((i + j) % 2) for i in range(rows)]
    if kind == 'U':
        return [f'{chr(97 + j)}{i}' for i in range(rows)]
    if kind == 'O':
        return [(None, f'o{j}{i}', 1000 + 10 * j + i, 2.5 + j)[(i + j) % 4] for i in range(rows)]
    if kind == 'M':
        return [np.datetime64('2001-01-01') + (10 * j + i) for i in range(rows)]
    raise ValueError(kind)


DT = {'i': np.int64, 'f': np.float64, 'b': bool, 'U': '<U2', 'O': object, 'M': 'datetime64[D]'}


def col_array(kind, j, rows):
    vals = col_values(kind, j, rows)
    if kind == 'O':
        a = np.empty(rows, dtype=object)
        for i, v in enumerate(vals):
            a[i] = v
        return a
    return np.array(vals, dtype=DT[kind])


# ---------------------------------------------------------------------------------------------
# axes: kind -> (real index object or None, raw labels, absent raw labels)

DATE_TEXT = {
    'D': ['2020-01-01', '2020-01-15', '2020-02-01', '2021-03-05'],
    'Mo': ['2019-12', '2020-01', '2020-03', '2021-01'],
    's': ['2020-01-01T00:00:00', '2020-01-01T12:30:00', '2020-01-02T00:00:00', '2020-02-01T06:00:00'],
}
DATE_UNIT = {'D': 'D', 'Mo': 'M', 's': 's'}
DATE_ABSENT = {'D': ['2020-01-03', '2019-06-30'], 'Mo': ['2020-02', '2018-05'], 's': ['2020-01-01T00:00:01', '2019-01-01T00:00:00']}
STR_LABELS = ['q', 'b', 'z', 'a', 'm']
INT_LABELS = [3, 0, 1, 2, 9]
IH_LABELS = [('a', 1), ('a', 2), ('b', 1), ('b', 2), ('c', 1)]


class Axis:
    """model of one axis: kind, raw labels (python / numpy objects as a user would write them)"""

    def __init__(self, kind, n):
        self.kind, self.n = kind, n
        if kind == 'str':
            self.raw = STR_LABELS[:n]
            self.absent = ['zz', 0]
        elif kind == 'int':
            self.raw = INT_LABELS[:n]
            self.absent = [7, -1]
        elif kind == 'auto':
            self.raw = list(range(n))
            self.absent = [n, -1, n + 3]
        elif kind in DATE_TEXT:
            self.unit = DATE_UNIT[kind]
            self.raw = [np.datetime64(t, self.unit) for t in DATE_TEXT[kind][:n]]
            self.absent = [np.datetime64(t, self.unit) for t in DATE_ABSENT[kind]]
        elif kind == 'ih':
            self.raw = IH_LABELS[:n]
            self.absent = [('a', 3), ('z', 1)]
        else:
            raise ValueError(kind)
        self.norm = [nl(x) for x in self.raw]
        self.pos = {x: i for i, x in enumerate(self.norm)}

    def build(self):
        import static_frame as sf
        if self.kind == 'auto':
            return None
        if self.kind == 'str' or self.kind == 'int':
            return sf.Index(self.raw)
        if self.kind == 'D':
            return sf.IndexDate(self.raw)
        if self.kind == 'Mo':
            return sf.IndexYearMonth(self.raw)
        if self.kind == 's':
            return sf.IndexSecond(self.raw)
        if self.kind == 'ih':
            if self.n == 0:
                return sf.IndexHierarchy._from_type_blocks(
                    __import__('static_frame').TypeBlocks.from_blocks((np.array([], dtype='<U1'), np.array([], dtype=np.int64))))
            return sf.IndexHierarchy.from_labels(self.raw)


def nl(x):
    """normalised label: (type name, value); datetime64 -> 'M:<iso text>' ; tuples recursively"""
    if isinstance(x, np.datetime64):
        return 'M:' + str(x)
    if isinstance(x, np.generic):
        x = x.item()
    if isinstance(x, (tuple, list, np.ndarray)):
        return tuple(nl(y) for y in x)
    if isinstance(x, datetime.datetime):
        return 'M:' + x.isoformat()
    if isinstance(x, datetime.date):
        return 'M:' + x.isoformat()
    return (type(x).__name__, x)


def index_labels(idx):
    """normalised labels of a real index"""
    v = idx.values
    if v.ndim == 2:
        return [tuple(nl(y) for y in row) for row in v]
    if v.dtype.kind == 'M':
        return ['M:' + s for s in v.astype(str).tolist()]
    if v.dtype.kind == 'O':
        return [nl(x) for x in v]
    return [(type(x).__name__, x) for x in v.tolist()]


# ---------------------------------------------------------------------------------------------
# key specs.  A spec is a JSON-able list/tuple; `model_key` gives the expectation on one axis:
#   ('scalar', p) | ('multi', [p..], flags) | ('raise', why)      flags: set of str
#   why in {'lookup' (absent label), 'index' (position out of range / bad Boolean length)}

def _norm_int(p, n):
    if -n <= p < n:
        return p % n
    return None


def model_positional(spec, n):
    t = spec[0]
    if t == 'null':
        return ('multi', list(range(n)), set())
    if t == 'int':
        p = _norm_int(spec[1], n)
        return ('raise', 'index') if p is None else ('scalar', p)
    if t == 'slice':
        return ('multi', list(range(n))[slice(spec[1], spec[2], spec[3])], set())
    if t in ('ilist', 'iarr'):
        ps = [_norm_int(p, n) for p in spec[1]]
        if any(p is None for p in ps):
            return ('raise', 'index')
        return ('multi', ps, {'repeats'} if len(set(ps)) < len(ps) else set())
    if t == 'bool':
        if len(spec[1]) != n:
            return ('raise', 'index')
        return ('multi', [i for i, b in enumerate(spec[1]) if b], set())
    raise ValueError(spec)


def build_positional(spec):
    t = spec[0]
    if t == 'null':
        return slice(None)
    if t == 'int':
        return spec[1]
    if t == 'slice':
        return slice(spec[1], spec[2], spec[3])
    if t == 'ilist':
        return list(spec[1])
    if t == 'iarr':
        return np.array(spec[1], dtype=np.int64)
    if t == 'bool':
        return np.array(spec[1], dtype=bool)
    raise ValueError(spec)


def _lab(ax, ref):
    """ref: position (int >= 0) of an existing label, or ['x', k] for the k-th absent label"""
    if isinstance(ref, (list, tuple)):
        return ax.absent[ref[1]]
    return ax.raw[ref]


def _is_absent(ref):
    return isinstance(ref, (list, tuple))


def _dt_key(form, text):
    if form == 'str':
        return text
    if form == 'dt64':
        return np.datetime64(text)
    if form == 'date':
        return datetime.date.fromisoformat(text)
    if form == 'datetime':
        return datetime.datetime.fromisoformat(text)
    raise ValueError(form)


_UNIT_ORDER = ['Y', 'M', 'D', 'h', 'm', 's', 'ms', 'us', 'ns']


def _dt_unit(form, text):
    if form == 'date':
        return 'D'
    if form == 'datetime':
        return 'us'
    return np.datetime_data(np.datetime64(text))[0]


def model_dt_scalar(ax, form, text):
    """positions addressed by one datetime key; ('scalar', p) when same unit"""
    unit = _dt_unit(form, text)
    k = np.datetime64(text)
    labels = np.array(ax.raw, dtype=f'M8[{ax.unit}]') if ax.n else np.array([], dtype=f'M8[{ax.unit}]')
    if unit == ax.unit:
        hits = [i for i in range(ax.n) if labels[i] == k]
        return ('scalar', hits[0]) if hits else ('raise', 'lookup')
    if _UNIT_ORDER.index(unit) < _UNIT_ORDER.index(ax.unit):  # coarser: every label inside the period
        ref = labels.astype(f'M8[{unit}]')
        return ('multi', [i for i in range(ax.n) if ref[i] == k], {'period'})
    return ('skip', 'finer-than-index')


def _tree_form(labels):
    """True when hierarchical labels are in an order an IndexHierarchy can hold (outer labels contiguous)"""
    seen, last = set(), object()
    for lab in labels:
        if lab[0] != last:
            if lab[0] in seen:
                return False
            seen.add(lab[0])
            last = lab[0]
    return True


def model_label(spec, ax):
    """expectation for a loc-style key spec on axis `ax`"""
    if ax.kind == 'ih':
        if spec[0] in ('labindex', 'bseries'):
            refs = spec[1] if spec[0] == 'labindex' else [r for r, _ in spec[1]]
            if not refs or not _tree_form([_lab(ax, r) for r in refs]):
                return ('skip', 'key-not-constructible')
        m = _model_label(spec, ax)
        if m[0] == 'multi' and not _tree_form([ax.raw[p] for p in m[1]]):
            # this version's IndexHierarchy cannot hold the selected labels in key order: the selection may be rejected
            return ('multi', m[1], m[2] | {'non-tree'})
        return m
    return _model_label(spec, ax)


def _model_label(spec, ax):
    n = ax.n
    t = spec[0]
    if t in ('null', 'bool'):
        return model_positional(spec, n)
    if t == 'iloc':
        return model_positional(spec[1], n)
    if t == 'lab':
        return ('raise', 'lookup') if _is_absent(spec[1]) else ('scalar', spec[1])
    if t in ('lablist', 'labarr', 'labindex'):
        if any(_is_absent(r) for r in spec[1]):
            return ('raise', 'lookup')
        ps = list(spec[1])
        return ('multi', ps, {'repeats'} if len(set(ps)) < len(ps) else set())
    if t == 'labslice':
        a, b, c = spec[1], spec[2], spec[3]
        if _is_absent(a) or _is_absent(b):
            return ('raise', 'lookup-slice')
        if c is None or c > 0:
            return ('multi', list(range(n))[slice(a, None if b is None else b + 1, c)], set())
        stop = None if (b is None or b == 0) else b - 1       # inclusive stop when walking downwards
        return ('multi', list(range(n))[slice(a, stop, c)], {'negstep'})
    if t == 'bseries':
        # spec[1]: list of [ref, bool]; alignment by label, missing labels are False
        want = {}
        for ref, b in spec[1]:
            if not _is_absent(ref):
                want[ref] = b
        return ('multi', [i for i in range(n) if want.get(i, False)], set())
    if t == 'bindex':
        return model_positional(('bool', spec[1]), n)
    if t == 'dt':
        return model_dt_scalar(ax, spec[1], spec[2])
    if t == 'dtlist':
        ps, period = [], False
        for text in spec[2]:
            m = model_dt_scalar(ax, spec[1], text)
            if m[0] == 'raise':
                return m
            if m[0] == 'skip':
                return m
            if m[0] == 'scalar':
                ps.append(m[1])
            else:
                period = True
                ps.extend(m[1])
        if period:
            return ('multi', sorted(set(ps)), {'period', 'unordered'})
        return ('multi', ps, {'repeats'} if len(set(ps)) < len(ps) else set())
    if t == 'dtslice':
        form, a, b = spec[1], spec[2], spec[3]
        labels = np.array(ax.raw, dtype=f'M8[{ax.unit}]')
        lo, hi, flags, absent = None, None, set(), False
        for which, text in (('lo', a), ('hi', b)):
            if text is None:
                continue
            m = model_dt_scalar(ax, form, text)
            if m[0] == 'skip':
                return m
            if m[0] == 'raise':
                absent = True
                continue
            if m[0] == 'scalar':
                if which == 'lo':
                    lo = m[1]
                else:
                    hi = m[1]
            else:
                if not m[1]:
                    flags.add('empty-period')   # behaviour not fixed by the property: only "no foreign data" is checked
                    unit = _dt_unit(form, text)
                    k = np.datetime64(text)
                    if which == 'lo':
                        cand = [i for i in range(n) if labels[i].astype(f'M8[{unit}]') >= k]
                        lo = cand[0] if cand else n
                    else:
                        cand = [i for i in range(n) if labels[i].astype(f'M8[{unit}]') <= k]
                        hi = cand[-1] if cand else -1
                elif which == 'lo':
                    lo = m[1][0]
                else:
                    hi = m[1][-1]
        if absent:
            # an exact-resolution bound that is not a label; with an empty-period bound as well the outcome is not fixed by the property
            return ('multi', list(range(n)), flags) if flags else ('raise', 'lookup-slice')
        lo = 0 if lo is None else lo
        hi = n - 1 if hi is None else hi
        return ('multi', list(range(lo, hi + 1)), flags)
    if t == 'hloc':
        # spec[1]: per-depth selector: None (all) | label | list of labels
        ps = []
        for i, lab in enumerate(ax.raw):
            ok = True
            for d, sel in enumerate(spec[1]):
                if sel is None:
                    continue
                if isinstance(sel, list):
                    ok = ok and lab[d] in sel
                else:
                    ok = ok and lab[d] == sel
            if ok:
                ps.append(i)
        full_scalar = len(spec[1]) == 2 and all(s is not None and not isinstance(s, list) for s in spec[1])
        if not ps:
            if any(isinstance(s_, list) for s_ in spec[1]):
                return ('skip', 'no match for list selectors: outcome not fixed by the property')
            return ('raise', 'lookup')
        if full_scalar:
            return ('scalar', ps[0])
        # the order among several outer labels given as a list is not fixed by the property
        return ('multi', ps, {'unordered'} if any(isinstance(s_, list) for s_ in spec[1]) else set())
    raise ValueError(spec)


def build_label(spec, ax):
    import static_frame as sf
    t = spec[0]
    if t in ('null', 'bool'):
        return build_positional(spec)
    if t == 'iloc':
        return sf.ILoc[build_positional(spec[1])]
    if t == 'lab':
        return _lab(ax, spec[1])
    if t == 'lablist':
        return [_lab(ax, r) for r in spec[1]]
    if t == 'labarr':
        labs = [_lab(ax, r) for r in spec[1]]
        if ax.kind in DATE_TEXT:
            return np.array(labs, dtype=f'M8[{ax.unit}]')
        if ax.kind == 'ih':
            a = np.empty(len(labs), dtype=object)
            for i, v in enumerate(labs):
                a[i] = v
            return a
        return np.array(labs) if labs else np.array([], dtype=np.int64 if ax.kind != 'str' else '<U1')
    if t == 'labindex':
        labs = [_lab(ax, r) for r in spec[1]]
        if ax.kind == 'ih':
            return sf.IndexHierarchy.from_labels(labs)
        if ax.kind in DATE_TEXT:
            return {'D': sf.IndexDate, 'Mo': sf.IndexYearMonth, 's': sf.IndexSecond}[ax.kind](labs)
        return sf.Index(labs)
    if t == 'labslice':
        return slice(None if spec[1] is None else _lab(ax, spec[1]), None if spec[2] is None else _lab(ax, spec[2]), spec[3])
    if t == 'bseries':
        labs = [_lab(ax, r) for r, _ in spec[1]]
        vals = np.array([b for _, b in spec[1]], dtype=bool)
        if ax.kind == 'ih':
            idx = sf.IndexHierarchy.from_labels(labs)
        elif ax.kind in DATE_TEXT:
            idx = {'D': sf.IndexDate, 'Mo': sf.IndexYearMonth, 's': sf.IndexSecond}[ax.kind](labs)
        else:
            idx = sf.Index(labs)
        return sf.Series(vals, index=idx)
    if t == 'bindex':
        return sf.Index(list(spec[1]))
    if t == 'dt':
        return _dt_key(spec[1], spec[2])
    if t == 'dtlist':
        if spec[1] == 'dt64arr':
            return np.array(spec[2], dtype='datetime64')
        return [_dt_key(spec[1], x) for x in spec[2]]
    if t == 'dtslice':
        return slice(None if spec[2] is None else _dt_key(spec[1], spec[2]), None if spec[3] is None else _dt_key(spec[1], spec[3]))
    if t == 'hloc':
        parts = tuple(slice(None) if s is None else s for s in spec[1])
        return sf.HLoc[parts if len(parts) > 1 else parts[0]]
    raise ValueError(spec)


def _dt_unit_fix(form):
    return 'dt64' if form == 'dt64arr' else form


# ---------------------------------------------------------------------------------------------
# key enumerations

def _opt(lo, hi):
    return [None] + list(range(lo, hi + 1))


def all_slices(n, bound=None):
    b = n + 1 if bound is None else bound
    for a in _opt(-b, b):
        for s in _opt(-b, b):
            for c in _opt(-b, b):
                if c == 0:
                    continue
                yield ('slice', a, s, c)


def distinct_sequences(n, maxlen=None):
    maxlen = n if maxlen is None else maxlen
    for k in range(0, maxlen + 1):
        yield from itertools.permutations(range(n), k)


def int_lists(n):
    """int lists: every ordered selection of distinct positions, written non-negative / negative / alternating;
    plus repeats and out-of-range members"""
    seen = set()
    for seq in distinct_sequences(n):
        for style in (0, 1, 2):
            if style == 0:
                s = tuple(seq)
            elif style == 1:
                s = tuple(p - n for p in seq)
            else:
                s = tuple(p - n if i % 2 == 0 else p for i, p in enumerate(seq))
            if s not in seen:
                seen.add(s)
                yield list(s)
    if n:
        for s in ([0, 0], [0, -n], [n - 1, 0, n - 1], [0, n], [-n - 1], [n]):
            if tuple(s) not in seen:
                seen.add(tuple(s))
                yield s


def positional_keys(n, slice_bound=None, arrays=True):
    for p in range(-n - 1, n + 2):
        yield ('int', p)
    yield from all_slices(n, slice_bound)
    for i, s in enumerate(int_lists(n)):
        yield ('ilist', s)
        if arrays and (i % 2 == 0 or len(s) <= 2):
            yield ('iarr', s)
    for bits in itertools.product((False, True), repeat=n):
        yield ('bool', list(bits))
    yield ('bool', [True] * (n + 1))          # too long: NumPy rejects it (a too-short non-empty key likewise)
    if n > 1:
        yield ('bool', [True] * (n - 1))


def representative_positional(n, tier='thorough'):
    """small set of keys for the *other* axis of a two-axis selection: every key kind and result shape"""
    if tier == 'quick' and n:
        return _dedupe([('null',), ('int', -1), ('slice', -1, None, -2), ('ilist', [n - 1, 0] if n > 1 else [0]), ('bool', [i == n - 1 for i in range(n)]),
                        ('int', 0), ('slice', n, None, None), ('bool', [i % 2 == 0 for i in range(n)])])
    out = [('null',), ('int', 0), ('int', -1), ('slice', None, None, -1), ('slice', 1, None, None), ('slice', n, None, None),
           ('slice', -1, None, -2), ('ilist', [n - 1, 0] if n > 1 else [0]), ('ilist', [-1]), ('iarr', []),
           ('bool', [i == n - 1 for i in range(n)]), ('bool', [i % 2 == 0 for i in range(n)]), ('bool', [False] * n)]
    if n == 0:
        out = [('null',), ('slice', None, None, -1), ('ilist', []), ('bool', []), ('int', 0)]
    return _dedupe(out)


def _dedupe(out):
    res, seen = [], set()
    for k in out:
        if repr(k) not in seen:
            seen.add(repr(k))
            res.append(k)
    return res


def label_keys(ax, tier='quick'):
    n = ax.n
    X0 = ['x', 0]
    X1 = ['x', 1]
    yield ('null',)
    for i in range(n):
        yield ('lab', i)
    for k in range(len(ax.absent)):
        yield ('lab', ['x', k])
    for seq in distinct_sequences(n):
        yield ('lablist', list(seq))
        if len(seq) <= 2 or seq[0] % 2 == 0:
            yield ('labarr', list(seq))
            if seq or ax.kind != 'ih':      # an empty IndexHierarchy cannot be built from labels
                yield ('labindex', list(seq))
    if n:
        yield ('lablist', [0, X0])
        yield ('lablist', [X1])
        yield ('labarr', [n - 1, X0]) if ax.kind != 'ih' else ('lablist', [X0, 0])
        yield ('lablist', [0, 0])
        yield ('labarr', [n - 1, 0, n - 1])
    steps = [None, 1, 2, 3, -1, -2]
    for a in [None] + list(range(n)):
        for b in [None] + list(range(n)):
            for c in steps:
                yield ('labslice', a, b, c)
    if n:
        yield ('labslice', X0, None, None)
        yield ('labslice', None, X0, None)
        yield ('labslice', 0, X1, None)
        yield ('labslice', X1, n - 1, 1)
    for bits in itertools.product((False, True), repeat=n):
        yield ('bool', list(bits))
    yield ('bool', [True] * (n + 1))
    # Boolean Series: same order, reversed, rotated, partial, partial + foreign, only foreign
    orders = []
    if n:
        full = list(range(n))
        orders = [full, full[::-1], full[1:] + full[:1], full[:-1], full[1:][::-1], full[::2] + [X0], [X0] + full[::-1], [X0, X1]]
        if n >= 3:
            orders.append([full[2], X1, full[0]])
    seen = set()
    for order in orders:
        for pat in ('all', 'alt', 'first', 'none', 'alt2'):
            vals = [dict(all=True, alt=(i % 2 == 0), first=(i == 0), none=False, alt2=(i % 2 == 1))[pat] for i in range(len(order))]
            sp = ('bseries', [[r, v] for r, v in zip(order, vals)])
            if repr(sp) not in seen:
                seen.add(repr(sp))
                yield sp
    if n == 2:
        yield ('bindex', [True, False])
        yield ('bindex', [False, True])
    if n == 1:
        yield ('bindex', [True])
        yield ('bindex', [False])
    # ILoc wrappers
    for p in range(-n - 1, n + 2):
        yield ('iloc', ('int', p))
    sl_bound = 2 if tier == 'quick' else None
    for s in all_slices(n, sl_bound if n >= 2 else None):
        yield ('iloc', s)
    for i, s in enumerate(int_lists(n)):
        if tier != 'quick' or i % 5 == 0 or len(s) <= 1:
            yield ('iloc', ('ilist', s))
    yield ('iloc', ('bool', [i % 2 == 1 for i in range(n)]))
    yield ('iloc', ('iarr', [n - 1] if n else []))
    if ax.kind == 'ih' and n:
        for sp in ([['a']], [['b']], [['z']], [None, 1], [None, 2], [None, 7], ['a', 1], ['b', 2], ['a', 3], [['a', 'b'], 2], [['a', 'b'], None],
                   ['a', [1, 2]], [['b', 'a'], [2]]):
            if len(sp) == 1:
                yield ('hloc', [sp[0][0]])
            else:
                yield ('hloc', sp)


def datetime_keys(ax):
    """keys specific to datetime axes: strings, date objects, datetime64 of same or coarser resolution"""
    n = ax.n
    texts = DATE_TEXT[ax.kind][:n]
    units_coarser = _UNIT_ORDER[:_UNIT_ORDER.index(ax.unit)]
    cut = {'Y': 4, 'M': 7, 'D': 10}
    cands = []
    for t in texts:
        cands.append(t)
        for u in units_coarser:
            if u in cut:
                cands.append(t[:cut[u]])
    extra = {'D': ['2020-01-02', '2019', '2020-03', '2022-01-01', '2020-02'], 'Mo': ['2020-02', '2018', '2020', '2022'],
             's': ['2020-01-01T00:00:01', '2020-01-03', '2020-03', '2019', '2020-01-01T12:30:00']}[ax.kind]
    seen = []
    for c in cands + extra:
        if c not in seen:
            seen.append(c)
    forms = ['str', 'dt64']
    for text in seen:
        for form in forms:
            yield ('dt', form, text)
        if len(text) == 10:
            yield ('dt', 'date', text)
        if ax.kind == 's' and len(text) == 19:
            yield ('dt', 'datetime', text)
    # lists
    for a, b in itertools.permutations(seen[:8], 2):
        if len(a) == len(b):
            yield ('dtlist', 'str', [a, b])
            yield ('dtlist', 'dt64arr', [a, b])
            if len(a) == 10:
                yield ('dtlist', 'date', [a, b])
    for text in seen:
        yield ('dtlist', 'str', [text])
    # slices (sorted axes only)
    opts = [None] + seen
    for a in opts:
        for b in opts:
            if a is None and b is None:
                continue
            yield ('dtslice', 'str', a, b)
            yield ('dtslice', 'dt64', a, b)
            if (a is None or len(a) == 10) and (b is None or len(b) == 10):
                yield ('dtslice', 'date', a, b)


# ---------------------------------------------------------------------------------------------
# containers and the model

class FrameModel:
    def __init__(self, kinds, rows, layout, rax='str', cax='str', name='fname'):
        self.kinds, self.nrows, self.layout = kinds, rows, tuple(tuple(x) for x in layout)
        self.rax, self.cax = Axis(rax, rows), Axis(cax, len(kinds))
        self.name = name
        self.data = [col_values(k, j, rows) for j, k in enumerate(kinds)]

    def build(self):
        cols = [col_array(k, j, self.nrows) for j, k in enumerate(self.kinds)]
        return frame_from(cols, self.layout, index=self.rax.build(), column_labels=self.cax.build(), name=self.name)


class SeriesModel:
    def __init__(self, kind, n, ax='str', name='sname'):
        self.kind, self.n, self.ax, self.name = kind, n, Axis(ax, n), name
        self.data = col_values(kind, 0, n)

    def build(self):
        import static_frame as sf
        return sf.Series(col_array(self.kind, 0, self.n), index=self.ax.build(), name=self.name)


def cell_eq(a, b):
    if type(a) is type(b):
        if a == b:
            return True
        try:
            return bool(a != a and b != b)
        except Exception:
            return False
    return same_cell(a, b)


def arr_cells(a):
    if a.dtype.kind == 'O':
        return list(a)
    if a.dtype.kind == 'M':
        return list(a)
    return a.tolist()


def observe(r):
    """canonical observation of a selection result"""
    import static_frame as sf
    if isinstance(r, sf.Frame):
        cols = []
        for b in r._blocks._blocks:
            if b.ndim == 1:
                cols.append(arr_cells(b))
            else:
                for j in range(b.shape[1]):
                    cols.append(arr_cells(b[:, j]))
        return ('F', index_labels(r.index), index_labels(r.columns), cols, tuple(r.shape))
    if isinstance(r, sf.Series):
        return ('S', index_labels(r.index), arr_cells(r.values), nl(r.name) if r.name is not None else None)
    return ('E', r)


def expect_frame(fm, rm, cm):
    """rm / cm: axis expectations ('scalar', p) | ('multi', ps, flags). -> expected observation"""
    if rm[0] == 'scalar' and cm[0] == 'scalar':
        return ('E', fm.data[cm[1]][rm[1]])
    if rm[0] == 'scalar':
        return ('S', [fm.cax.norm[j] for j in cm[1]], [fm.data[j][rm[1]] for j in cm[1]], fm.rax.norm[rm[1]])
    if cm[0] == 'scalar':
        return ('S', [fm.rax.norm[i] for i in rm[1]], [fm.data[cm[1]][i] for i in rm[1]], fm.cax.norm[cm[1]])
    return ('F', [fm.rax.norm[i] for i in rm[1]], [fm.cax.norm[j] for j in cm[1]],
            [[fm.data[j][i] for i in rm[1]] for j in cm[1]], (len(rm[1]), len(cm[1])))


def expect_series(sm, m):
    if m[0] == 'scalar':
        return ('E', sm.data[m[1]])
    return ('S', [sm.ax.norm[i] for i in m[1]], [sm.data[i] for i in m[1]], None)


def compare(obs, exp, check_name=True, unordered=False):
    """-> None if equal else short symptom string"""
    if obs[0] != exp[0]:
        return f'kind:{obs[0]}-for-{exp[0]}'
    if exp[0] == 'E':
        return None if cell_eq(obs[1], exp[1]) else 'element'
    if exp[0] == 'S':
        if unordered and len(obs[1]) == len(exp[1]):
            order = sorted(range(len(obs[1])), key=lambda i: repr(obs[1][i]))
            order_e = sorted(range(len(exp[1])), key=lambda i: repr(exp[1][i]))
            obs = ('S', [obs[1][i] for i in order], [obs[2][i] for i in order], obs[3])
            exp = ('S', [exp[1][i] for i in order_e], [exp[2][i] for i in order_e], exp[3])
        if obs[1] != exp[1]:
            return 'labels'
        if len(obs[2]) != len(exp[2]) or not all(cell_eq(a, b) for a, b in zip(obs[2], exp[2])):
            return 'values'
        if check_name and exp[3] is not None and obs[3] != exp[3]:
            return 'name'
        return None
    # Frame
    if unordered and len(obs[1]) == len(exp[1]) and len(obs[2]) == len(exp[2]):
        ro = sorted(range(len(obs[1])), key=lambda i: repr(obs[1][i]))
        re_ = sorted(range(len(exp[1])), key=lambda i: repr(exp[1][i]))
        co = sorted(range(len(obs[2])), key=lambda i: repr(obs[2][i]))
        ce = sorted(range(len(exp[2])), key=lambda i: repr(exp[2][i]))
        if len(obs[3]) == len(co):
            obs = ('F', [obs[1][i] for i in ro], [obs[2][j] for j in co], [[obs[3][j][i] for i in ro] for j in co], obs[4])
            exp = ('F', [exp[1][i] for i in re_], [exp[2][j] for j in ce], [[exp[3][j][i] for i in re_] for j in ce], exp[4])
    if obs[4] != exp[4]:
        return 'shape'
    if obs[1] != exp[1]:
        return 'row-labels'
    if obs[2] != exp[2]:
        return 'column-labels'
    if len(obs[3]) != len(exp[3]):
        return 'block-width'
    for a, b in zip(obs[3], exp[3]):
        if len(a) != len(b) or not all(cell_eq(x, y) for x, y in zip(a, b)):
            return 'values'
    return None


def spec_kind(spec):
    t = spec[0]
    if t == 'iloc':
        return 'ILoc.' + spec_kind(spec[1])
    if t == 'slice':
        c = spec[3]
        neg = (c is not None and c < 0)
        return 'slice-' + ('neg' if neg else 'pos')
    if t == 'labslice':
        c = spec[3]
        return 'labslice-' + ('neg' if (c is not None and c < 0) else 'pos')
    if t == 'dt' or t == 'dtlist' or t == 'dtslice':
        return f'{t}.{spec[1]}'
    return t


def _sz(k):
    return str(k) if k <= 1 else 'n'


def shape_class(exp):
    """coarse class of the expected result, used in failure keys (root causes of raised exceptions follow the result shape, not the key kind)"""
    if exp[0] == 'E':
        return 'element'
    if exp[0] == 'S':
        return f'Series[{_sz(len(exp[1]))}]'
    if exp[4][1] == 0:
        return 'Frame[*x0]'
    return f'Frame[{_sz(exp[4][0])}x{_sz(exp[4][1])}]'


def is_lookup(e):
    return isinstance(e, LookupError)


AXIS_CLASS = {'str': 'flat', 'int': 'flat', 'auto': 'auto', 'D': 'datetime', 'Mo': 'datetime', 's': 'datetime', 'ih': 'hierarchy', 'pos': 'pos'}


def judge(op, models, expect_fn, cont, route, kinds, axes, resolvers=()):
    """Run `op` (the operation under test) and compare with the model.
    models: list of axis expectations.  Returns (ok, key, what, nontrivial, how).
    Failure keys: label-resolution symptoms (absent labels, label slices) are keyed by axis class and key kind only (the code is the
    Index's, shared by Series / Frame / loc / getitem); everything else also names the container."""
    if any(m[0] == 'skip' for m in models):
        return (True, None, None, False, 'skip')
    raises = [m for m in models if m[0] == 'raise']
    flags = set()
    for m in models:
        if m[0] == 'multi':
            flags |= m[2]
    area = 'iloc' if route == 'iloc' else 'loc'
    kinds_txt, axes_txt = '/'.join(kinds), '/'.join(axes)
    # the axis a label-resolution symptom belongs to
    cul = [i for i, m in enumerate(models) if m[0] == 'raise' or (m[0] == 'multi' and 'negstep' in m[2])]
    c_kind, c_axis = (kinds[cul[0]], axes[cul[0]]) if cul else (kinds_txt, axes_txt)
    c_root = 'auto-index' if c_axis == 'auto' else 'mapped-index'      # Index._loc_to_iloc fast path vs. LocMap
    try:
        r = op()
        exc = None
    except Exception as e:      # observation: the operation under test raised
        r, exc = None, e
    if raises:
        why = raises[0][1]
        if exc is None:
            o = observe(r)
            size = (len(o[1]) if o[0] in 'SF' else 1)
            if why.startswith('lookup'):
                sym = 'absent-label-returns-data' if size else 'absent-label-no-raise-empty-result'
                if why == 'lookup-slice':
                    sym = 'absent-slice-bound-no-raise'
                return (False, f'{PID}:{area}:{sym}:{c_root}' + ('' if c_axis == 'auto' else f':{c_axis}:{c_kind}'), f'absent label did not raise; returned {str(o)[:160]}', True, 'fail')
            return (False, f'{PID}:{cont}.{area}:bad-position-no-raise:{c_kind}', f'out-of-range position / wrong-length Boolean key did not raise; returned {str(o)[:160]}', True, 'fail')
        if why.startswith('lookup') and not is_lookup(exc):
            return (False, f'{PID}:{area}:{"absent-slice-bound" if why == "lookup-slice" else "absent-label"}-raises-{type(exc).__name__}-not-LookupError',
                    f'absent label raised {type(exc).__name__} ({exc!s:.80}), which is not a LookupError subclass', True, 'fail')
        return (True, None, None, True, 'raise-ok')
    if exc is not None:
        if 'repeats' in flags:
            return (True, None, None, False, 'repeat-rejected')       # label uniqueness does not allow the repeat
        if 'non-tree' in flags:
            return (True, None, None, False, 'non-tree-rejected')
        if 'empty-period' in flags:
            return (True, None, None, False, 'empty-period-raise')
        exp = expect_fn()
        # classification only: does the public label->position translation of one axis raise the same exception on its own?
        for i, res in enumerate(resolvers() if callable(resolvers) else resolvers):
            if res is None:
                continue
            try:
                res()
            except Exception as e2:
                if type(e2) is type(exc):
                    return (False, f'{PID}:{area}:label-resolution-raises-{type(exc).__name__}:{axes[i]}:{kinds[i]}',
                            f'valid key raised {type(exc).__name__} in Index.loc_to_iloc: {exc!s:.120}; expected {str(exp)[:160]}', True, 'fail')
        if shape_class(exp) == 'Frame[*x0]':
            # one root cause whatever the key kinds / route: TypeBlocks._extract ignores the row key when no column is selected
            return (False, f'{PID}:Frame:empty-column-selection-with-row-key-raises-{type(exc).__name__}',
                    f'selection of zero columns together with a row key raised {type(exc).__name__}: {exc!s:.120}; expected {str(exp)[:160]}', True, 'fail')
        return (False, f'{PID}:{cont}.{area}:raises-{type(exc).__name__}:{axes_txt}:{kinds_txt}:expected-{shape_class(exp)}',
                f'valid selection raised {type(exc).__name__}: {exc!s:.120}; expected {str(exp)[:160]}', True, 'fail')
    exp = expect_fn()
    obs = observe(r)
    if 'empty-period' in flags:
        # only "no foreign data": every returned label must be inside the model range
        ok = obs[0] == exp[0] and (obs[0] == 'E' or set(map(repr, obs[1])) <= set(map(repr, exp[1])))
        if ok:
            return (True, None, None, False, 'empty-period')
        return (False, f'{PID}:{area}:period-slice-foreign-data:{kinds_txt}', f'datetime slice with an empty bound period returned data outside the range: {str(obs)[:160]}', True, 'fail')
    sym = compare(obs, exp, unordered='unordered' in flags)
    if sym is None:
        nontrivial = exp[0] == 'E' or len(exp[1]) > 0
        return (True, None, None, nontrivial, 'ok')
    if 'negstep' in flags:
        return (False, f'{PID}:{area}:neg-step-label-slice-stop-not-inclusive:{c_root}', f'expected {str(exp)[:200]} observed {str(obs)[:200]}', True, 'fail')
    return (False, f'{PID}:{cont}.{area}:wrong-{sym}:{axes_txt}:{kinds_txt}', f'expected {str(exp)[:200]} observed {str(obs)[:200]}', True, 'fail')


# ---------------------------------------------------------------------------------------------
# evaluation of one case (used by run and replay)

def _frame_key(route, rk, ck, fm, build_r, build_c):
    """the real key object for a Frame route"""
    if route == 'getitem':
        return build_c(ck, fm.cax)
    if ck is None:
        k = build_r(rk, fm.rax)
        if isinstance(k, tuple):   # a tuple is the two-axis syntax: a hierarchical row label needs the explicit form
            return (k, slice(None))
        return k
    return (build_r(rk, fm.rax), build_c(ck, fm.cax))


NULL_SPEC = ('null',)


def eval_frame(f, fm, route, rk, ck, blame=True):
    """route in iloc / loc / getitem; rk / ck specs (ck None: one-axis key; route getitem: rk None).
    On a failing two-axis key the single-axis variants (rk, :) and (:, ck) are evaluated as well; when one of them fails on its own the
    failure is attributed to (and keyed by) that axis alone.  Returns (result, replay-overrides)."""
    nc = len(fm.kinds)
    if route == 'iloc':
        rm = model_positional(rk, fm.nrows)
        cm = model_positional(ck, nc) if ck is not None else ('multi', list(range(nc)), set())
        key = _frame_key(route, rk, ck, fm, lambda s, ax: build_positional(s), lambda s, ax: build_positional(s))
        op = lambda: f.iloc[key]
    else:
        rm = model_label(rk, fm.rax) if rk is not None else ('multi', list(range(fm.nrows)), set())
        cm = model_label(ck, fm.cax) if ck is not None else ('multi', list(range(nc)), set())
        if rm[0] == 'skip' or cm[0] == 'skip':
            return (True, None, None, False, 'skip'), None
        key = _frame_key(route, rk, ck, fm, build_label, build_label)
        op = (lambda: f.loc[key]) if route == 'loc' else (lambda: f[key])
    kinds = [spec_kind(rk) if rk is not None else '-', spec_kind(ck) if ck is not None else '-']
    axes = [AXIS_CLASS[fm.rax.kind], AXIS_CLASS[fm.cax.kind]] if route != 'iloc' else ['pos', 'pos']
    def resolvers():
        if route == 'iloc':
            return ()
        kr = build_label(rk, fm.rax) if rk is not None else None
        kc = build_label(ck, fm.cax) if ck is not None else None
        return (None if rk is None else (lambda: f.index.loc_to_iloc(kr)), None if ck is None else (lambda: f.columns.loc_to_iloc(kc)))
    res = judge(op, [rm, cm], lambda: expect_frame(fm, rm, cm), 'Frame', route, kinds, axes, resolvers)
    if res[0] or not blame or route == 'getitem' or ck is None:
        return res, None
    if rk[0] != 'null':
        r1, _ = eval_frame(f, fm, route, rk, NULL_SPEC if route == 'iloc' else None, blame=False)
        if not r1[0]:
            return r1, dict(ck=NULL_SPEC if route == 'iloc' else None)
    if ck[0] != 'null':
        r2, _ = eval_frame(f, fm, route, NULL_SPEC, ck, blame=False)
        if not r2[0]:
            return r2, dict(rk=NULL_SPEC)
    return res, None


def eval_series(s, sm, route, k):
    if route == 'iloc':
        m = model_positional(k, sm.n)
        key = build_positional(k)
        op = lambda: s.iloc[key]
    else:
        m = model_label(k, sm.ax)
        if m[0] == 'skip':
            return (True, None, None, False, 'skip')
        key = build_label(k, sm.ax)
        op = (lambda: s.loc[key]) if route == 'loc' else (lambda: s[key])
    axes_txt = AXIS_CLASS[sm.ax.kind] if route != 'iloc' else 'pos'
    return judge(op, [m], lambda: expect_series(sm, m), 'Series', route, [spec_kind(k)], [axes_txt],
                 () if route == 'iloc' else (lambda: s.index.loc_to_iloc(key),))


def _record(rep, res, rp, dk):
    over = None
    if len(res) == 2:
        res, over = res
    ok, key, what, nontrivial, _ = res
    rep.count(distinct_key=dk if nontrivial else None, sample=rp if nontrivial else None)
    if not ok:
        if over:
            rp = dict(rp, **over)
        rep.check(False, key, what + f' | case {rp}', rp)


# ---------------------------------------------------------------------------------------------
# run_iloc

MIXES_QUICK = ['i', 'f', 'U', 'ii', 'if', 'bO', 'iii', 'ifU', 'UUb', 'iiii', 'iiff', 'ifUO']
MIXES_THOROUGH = MIXES_QUICK + ['UUb', 'fiif', 'bOOM', 'iifU', 'OOOO', 'fff', 'ibb', 'MM', 'iM', 'iiif']


def _frame_cases_iloc(tier):
    mixes = MIXES_QUICK if tier == 'quick' else MIXES_THOROUGH
    for kinds in mixes:
        m = len(kinds)
        if tier == 'quick':
            rows_opts = (3,) if m == 4 else ((0, 1, 3) if m == 1 else (0, 4) if m == 2 else (1, 2) if kinds == 'ifU' else (2,))
        else:
            rows_opts = (0, 1, 2, 3, 4) if m < 4 else (2, 3, 4) if kinds in ('iiii', 'iiff', 'ifUO') else (1, 3)
        for rows in rows_opts:
            cols = [col_array(k, j, rows) for j, k in enumerate(kinds)]
            for lay in layouts_dtype_safe(cols):
                for part in ('cols', 'rows'):
                    yield ('frame', kinds, rows, [list(x) for x in lay], part)


_KCOUNT = {0: 40, 1: 200, 2: 480, 3: 1000, 4: 1900}


def _iloc_cost(case):
    if case[0] == 'series':
        return _KCOUNT[case[2]]
    _, kinds, rows, lay, part = case
    return 8 * _KCOUNT[len(kinds)] if part == 'cols' else 6 * _KCOUNT[rows]


def _iloc_cases(tier):
    cases = list(_frame_cases_iloc(tier))
    # deterministic load balancing: round-robin sharding over cases sorted by estimated size; the small Series cases go first
    cases.sort(key=lambda c: -_iloc_cost(c))
    return [('series', kind, n) for kind in 'ifbUOM' for n in range(0, 5)] + cases


def run_iloc(repo, task):
    tier = task.get('tier', 'quick')
    rep = Report('C04-iloc', task,
                 rule='Series (6 dtypes, n<=4) x every positional key; Frames: dtype mixes x rows x every dtype-safe 1-D/2-D block layout x '
                      '(every column key x representative row keys) + (every row key x representative column keys); positional keys = all ints in [-n-1,n+1], '
                      'all slices with start/stop/step in [-n-1,n+1] U {None}, int lists/arrays of distinct positions in every order written non-negative/negative/mixed '
                      '+ repeats + out-of-range, all Boolean arrays (+ wrong length). Non-trivial: the key addresses >= 1 cell or must raise',
                 bound=f'columns <= 4, rows <= 4, dtypes int64/float64(NaN)/bool/<U2/object/datetime64[D], tier={tier}')
    for case in rep.shard(_iloc_cases(tier)):
        try:
            if case[0] == 'series':
                _, kind, n = case
                sm = SeriesModel(kind, n)
                s = sm.build()
                for k in positional_keys(n):
                    rp = dict(fn='run_iloc', c='series', kind=kind, n=n, route='iloc', k=k)
                    _record(rep, eval_series(s, sm, 'iloc', k), rp, ('s', kind, n, repr(k)))
            else:
                _, kinds, rows, lay, part = case
                fm = FrameModel(kinds, rows, lay)
                f = fm.build()
                m = len(kinds)
                if part == 'cols':
                    pairs = ((rk, ck) for rk in representative_positional(rows, tier) for ck in positional_keys(m))
                else:
                    pairs = itertools.chain(((rk, ck) for rk in positional_keys(rows, arrays=False) for ck in representative_positional(m, tier)[:5 if tier == 'quick' else None]),
                                            ((rk, None) for rk in positional_keys(rows)))
                for rk, ck in pairs:
                    rp = dict(fn='run_iloc', c='frame', kinds=kinds, rows=rows, layout=lay, route='iloc', rk=rk, ck=ck)
                    _record(rep, eval_frame(f, fm, 'iloc', rk, ck), rp, ('f', kinds, rows, repr(lay), repr(rk), repr(ck)))
        except Exception:
            rep.error(f'run_iloc case {case}')
    return rep.done()


# ---------------------------------------------------------------------------------------------
# run_loc

AXIS_KINDS = ['str', 'int', 'auto', 'D', 'ih']


def _loc_cases(tier):
    sizes = (0, 1, 2, 3, 4) if tier != 'quick' else (1, 2, 4)
    for axk in AXIS_KINDS + ['Mo', 's']:
        for n in sizes:
            for kind in ('i', 'O') if tier == 'quick' else 'ifbUO':
                yield ('series', kind, n, axk)
        for n in (2, 4) if tier == 'quick' else (1, 2, 3, 4):
            yield ('series-dt', 'i', n, axk) if axk in DATE_TEXT else ('noop',)
    mixes = ['ifU', 'iiOb'] if tier == 'quick' else ['ifU', 'iiOb', 'ii', 'b']
    pairs = [(a, 'str') for a in AXIS_KINDS] + [('str', b) for b in AXIS_KINDS if b != 'str'] + [('int', 'int'), ('auto', 'auto'), ('ih', 'ih'), ('D', 'int'), ('auto', 'D')]
    if tier != 'quick':
        pairs += [('Mo', 's'), ('ih', 'auto')]
    for kinds in mixes:
        for rows in (3,) if tier == 'quick' else (1, 4):
            cols = [col_array(k, j, rows) for j, k in enumerate(kinds)]
            lays = list(layouts_dtype_safe(cols))
            if tier == 'quick':
                lays = [lays[0], lays[-1]] if len(lays) > 1 else lays
            elif len(lays) > 8:
                lays = lays[::3] + [lays[-1]]
            for lay in lays:
                for rax, cax in pairs:
                    for part in ('rows', 'cols', 'getitem'):
                        yield ('frame', kinds, rows, [list(x) for x in lay], rax, cax, part)
    # datetime keys on Frame axes
    for kinds in (['ifU'] if tier == 'quick' else ['ifU', 'iiii']):
        for dk in ('D', 'Mo', 's'):
            lay = [[1, True]] * len(kinds) if kinds != 'iiii' else [[2, False], [1, True], [1, False]]
            yield ('frame-dt', kinds, 4, lay, dk, 'str')
            yield ('frame-dt', kinds[:3] + 'f', 3, [[1, False]] * 4, 'str', dk)


def representative_label(ax):
    n = ax.n
    out = [('null',)]
    if n:
        out += [('lab', n - 1), ('lablist', [n - 1, 0] if n > 1 else [0]), ('labslice', 0, n - 1, 2), ('bool', [i % 2 == 0 for i in range(n)]),
                ('bseries', [[n - 1, True], [['x', 0], True], [0, False]] if n > 1 else [[['x', 0], True], [0, True]]), ('iloc', ('int', -1)), ('iloc', ('slice', None, None, -1)),
                ('lab', ['x', 0]), ('labindex', [0]), ('lablist', [])]
    return out


def run_loc(repo, task):
    tier = task.get('tier', 'quick')
    rep = Report('C04-loc', task,
                 rule='label routes (.loc[k], .loc[r, c], [k]) on Series and Frames for axis kinds flat str / int (non-auto) / auto-integer / IndexDate / '
                      'IndexYearMonth / IndexSecond / IndexHierarchy: every label, absent labels, every ordered list/array/Index of distinct labels (+ repeats, + absent member), '
                      'every label slice with start/stop in labels U {None} and step in {None,1,2,3,-1,-2} (+ absent bounds), all Boolean arrays, Boolean Series '
                      '(same / reversed / rotated / partial / foreign labels), Boolean Index, ILoc wrappers, HLoc; datetime axes additionally: date strings, date objects, '
                      'same- and coarser-resolution datetime64 as scalar, list and slice. Frames: (all row keys x representative column keys) + (representative row keys x all column keys). '
                      'Non-trivial: addresses >= 1 cell or must raise',
                 bound=f'axis length <= 4, columns <= 4, rows <= 4, tier={tier}')
    for case in rep.shard(c for c in _loc_cases(tier) if c[0] != 'noop'):
        try:
            if case[0] == 'series':
                _, kind, n, axk = case
                sm = SeriesModel(kind, n, axk)
                s = sm.build()
                for k in label_keys(sm.ax, tier):
                    for route in ('loc', 'getitem'):
                        rp = dict(fn='run_loc', c='series', kind=kind, n=n, ax=axk, route=route, k=k)
                        _record(rep, eval_series(s, sm, route, k), rp, ('s', kind, n, axk, route, repr(k)))
            elif case[0] == 'series-dt':
                _, kind, n, axk = case
                sm = SeriesModel(kind, n, axk)
                s = sm.build()
                for k in datetime_keys(sm.ax):
                    for route in ('loc', 'getitem'):
                        rp = dict(fn='run_loc', c='series', kind=kind, n=n, ax=axk, route=route, k=k)
                        _record(rep, eval_series(s, sm, route, k), rp, ('s', kind, n, axk, route, repr(k)))
            elif case[0] == 'frame':
                _, kinds, rows, lay, rax, cax, part = case
                fm = FrameModel(kinds, rows, lay, rax, cax)
                f = fm.build()
                if part == 'rows':
                    pairs = itertools.chain(((rk, ck) for rk in label_keys(fm.rax, tier) for ck in representative_label(fm.cax)),
                                            ((rk, None) for rk in label_keys(fm.rax, tier)))
                    route = 'loc'
                elif part == 'cols':
                    pairs = ((rk, ck) for rk in representative_label(fm.rax) for ck in label_keys(fm.cax, tier))
                    route = 'loc'
                else:
                    pairs = ((None, ck) for ck in label_keys(fm.cax, tier))
                    route = 'getitem'
                for rk, ck in pairs:
                    rp = dict(fn='run_loc', c='frame', kinds=kinds, rows=rows, layout=lay, rax=rax, cax=cax, route=route, rk=rk, ck=ck)
                    _record(rep, eval_frame(f, fm, route, rk, ck), rp, ('f', kinds, rows, repr(lay), rax, cax, route, repr(rk), repr(ck)))
            elif case[0] == 'frame-dt':
                _, kinds, rows, lay, rax, cax = case
                fm = FrameModel(kinds, rows, lay, rax, cax)
                f = fm.build()
                if rax in DATE_TEXT:
                    pairs = [(rk, ck, 'loc') for rk in datetime_keys(fm.rax) for ck in (None, ('lab', 1), ('lablist', [2, 0]))]
                else:
                    pairs = [(rk, ck, 'loc') for ck in datetime_keys(fm.cax) for rk in (('null',), ('lab', 1), ('lablist', [2, 0]))]
                    pairs += [(None, ck, 'getitem') for ck in datetime_keys(fm.cax)]
                for rk, ck, route in pairs:
                    rp = dict(fn='run_loc', c='frame', kinds=kinds, rows=rows, layout=lay, rax=rax, cax=cax, route=route, rk=rk, ck=ck)
                    _record(rep, eval_frame(f, fm, route, rk, ck), rp, ('f', kinds, rows, repr(lay), rax, cax, route, repr(rk), repr(ck)))
        except Exception:
            rep.error(f'run_loc case {case}')
    return rep.done()


# ---------------------------------------------------------------------------------------------
# run_bloc

def _bloc_cases(tier):
    shapes = [('i', 3), ('if', 2), ('if', 3), ('ifU', 2), ('iib', 3), ('iiff', 2), ('iifU', 3), ('bOUf', 2), ('iiii', 3)] if tier == 'quick' else \
        [('i', 4), ('if', 4), ('ifU', 3), ('iib', 4), ('iiff', 3), ('iifU', 3), ('bOUf', 3), ('iiii', 3), ('fOOi', 3), ('iiM', 3)]
    for kinds, rows in shapes:
        cols = [col_array(k, j, rows) for j, k in enumerate(kinds)]
        for lay in layouts_dtype_safe(cols):
            for axes in (('str', 'str'), ('auto', 'int'), ('ih', 'D')):
                yield (kinds, rows, [list(x) for x in lay], axes)


def eval_bloc(f, fm, kspec):
    """kspec: ('arr', bits row-major) | ('frame', row refs, col refs, bits row-major over those refs)"""
    import static_frame as sf
    nr, nc = fm.nrows, len(fm.kinds)
    if kspec[0] == 'arr':
        bits = kspec[1]
        key = np.array(bits, dtype=bool).reshape(nr, nc)
        want = {(i, j) for i in range(nr) for j in range(nc) if bits[i * nc + j]}
    else:
        _, rrefs, crefs, bits = kspec
        rl = [_lab(fm.rax, r) for r in rrefs]
        cl = [_lab(fm.cax, c) for c in crefs]
        arr = np.array(bits, dtype=bool).reshape(len(rrefs), len(crefs))
        ridx = sf.IndexHierarchy.from_labels(rl) if fm.rax.kind == 'ih' else (sf.IndexDate(rl) if fm.rax.kind == 'D' else sf.Index(rl))
        cidx = sf.IndexHierarchy.from_labels(cl) if fm.cax.kind == 'ih' else (sf.IndexDate(cl) if fm.cax.kind == 'D' else sf.Index(cl))
        key = sf.Frame(arr, index=ridx, columns=cidx)
        want = set()
        for a, r in enumerate(rrefs):
            for b, c in enumerate(crefs):
                if bits[a * len(crefs) + b] and not _is_absent(r) and not _is_absent(c):
                    want.add((r, c))
    try:
        r = f.bloc[key]
        exc = None
    except Exception as e:
        r, exc = None, e
    kt = kspec[0]
    if kt == 'frame':
        kt = 'frame-key:' + ('no-common-columns' if all(_is_absent(c) for c in kspec[2]) else 'no-common-rows' if all(_is_absent(r_) for r_ in kspec[1]) else 'overlapping-labels')
    if exc is not None:
        return (False, f'{PID}:Frame.bloc:raises-{type(exc).__name__}:{kt}', f'bloc selection raised {type(exc).__name__}: {exc!s:.120}', True, 'fail')
    if not isinstance(r, sf.Series):
        return (False, f'{PID}:Frame.bloc:not-a-Series:{kt}', f'bloc returned {type(r).__name__}', True, 'fail')
    labels = [nl(tuple(x)) if isinstance(x, tuple) else nl(x) for x in r.index.values]
    got = {}
    for lab, v in zip(labels, arr_cells(r.values)):
        got[repr(lab)] = v
    exp = {repr((fm.rax.norm[i], fm.cax.norm[j])): fm.data[j][i] for (i, j) in want}
    if len(labels) != len(got):
        return (False, f'{PID}:Frame.bloc:duplicate-labels:{kt}', f'bloc result repeats a (row, column) label: {labels}', True, 'fail')
    if set(got) != set(exp):
        return (False, f'{PID}:Frame.bloc:wrong-cells:{kt}', f'expected cells {sorted(exp)} observed {sorted(got)}', True, 'fail')
    for k, v in exp.items():
        if not cell_eq(got[k], v):
            return (False, f'{PID}:Frame.bloc:wrong-values:{kt}', f'cell {k}: expected {v!r} observed {got[k]!r}', True, 'fail')
    return (True, None, None, len(want) > 0, 'ok')


def bloc_keys(fm, tier):
    nr, nc = fm.nrows, len(fm.kinds)
    size = nr * nc
    if size <= (12 if (tier != 'quick' or fm.rax.kind == 'str') else 9):
        for bits in itertools.product((False, True), repeat=size):
            yield ('arr', list(bits))
    else:
        # all patterns with <= 2 True cells or <= 1 False cell, all row/column stripes, checkerboards
        seen = set()
        def emit(b):
            t = tuple(b)
            if t not in seen:
                seen.add(t)
                return True
            return False
        for k in (0, 1, 2):
            for on in itertools.combinations(range(size), k):
                b = [i in on for i in range(size)]
                if emit(b):
                    yield ('arr', b)
                nb = [not x for x in b]
                if k <= 1 and emit(nb):
                    yield ('arr', nb)
        for rmask in itertools.product((False, True), repeat=nr):
            for cmask in itertools.product((False, True), repeat=nc):
                b = [rmask[i] and cmask[j] for i in range(nr) for j in range(nc)]
                if emit(b):
                    yield ('arr', b)
                b = [rmask[i] != cmask[j] for i in range(nr) for j in range(nc)]
                if emit(b):
                    yield ('arr', b)
    # Frame keys: reordered / partial / foreign labels
    X = ['x', 0]
    rsets = [list(range(nr)), list(range(nr))[::-1], list(range(nr))[1:], [X] + list(range(nr))[::2]]
    csets = [list(range(nc)), list(range(nc))[::-1], list(range(nc))[:-1] or [0], list(range(nc))[1:][::-1] + [X]]
    for rr in rsets:
        for cc in csets:
            if not rr or not cc:
                continue
            sz = len(rr) * len(cc)
            for pat in range(4):
                bits = [dict(enumerate([True, (i % 2 == 0), (i % 3 == 1), i == sz - 1]))[pat] for i in range(sz)]
                yield ('frame', rr, cc, bits)


def run_bloc(repo, task):
    tier = task.get('tier', 'quick')
    rep = Report('C04-bloc', task,
                 rule='Frame.bloc[key]: every dtype-safe layout x Boolean arrays (all 2^(r*c) patterns when r*c <= 9 (quick) / 12, otherwise all patterns with <= 2 True or <= 1 False '
                      'cells, all row x column stripes and xor patterns) + Boolean Frame keys with identical / reversed / partial / foreign labels; result must be a Series keyed by exactly the '
                      '(row label, column label) pairs of the True cells (aligned by label for Frame keys) with the cell values. Non-trivial: >= 1 True cell',
                 bound=f'columns <= 4, rows <= 4, axes str/auto/int/IndexHierarchy/IndexDate, tier={tier}')
    for case in rep.shard(_bloc_cases(tier)):
        try:
            kinds, rows, lay, axes = case
            fm = FrameModel(kinds, rows, lay, axes[0], axes[1])
            f = fm.build()
            for ks in bloc_keys(fm, tier):
                rp = dict(fn='run_bloc', kinds=kinds, rows=rows, layout=lay, rax=axes[0], cax=axes[1], k=ks)
                _record(rep, eval_bloc(f, fm, ks), rp, ('b', kinds, rows, repr(lay), axes, repr(ks)))
        except Exception:
            rep.error(f'run_bloc case {case}')
    return rep.done()


# ---------------------------------------------------------------------------------------------

RUNS = ('run_iloc', 'run_loc', 'run_bloc')


def run(repo, task):
    """all sub-areas in sequence (convenience; the sub-areas are meant to be registered separately)"""
    outs = [globals()[name](repo, task) for name in RUNS]
    out = dict(outs[0])
    out['name'] = 'C04-selection'
    for o in outs[1:]:
        out['evaluations'] += o['evaluations']
        out['distinct'] += o['distinct']
        out['failures'] = out['failures'] + o['failures']
        out['rule'] += ' || ' + o['rule']
        out['bound'] += ' || ' + o['bound']
        out['wall_s'] += o['wall_s']
        if o['status'] != 'ok':
            out['status'] = o['status']
            out['detail'] = out.get('detail', '') + o.get('detail', '')
    return out


def _tuplify(x):
    if isinstance(x, list):
        return [_tuplify(y) for y in x]
    return x


def replay(repo, rp):
    """re-run exactly one recorded case"""
    fn = rp.get('fn')
    if fn == 'run_bloc':
        fm = FrameModel(rp['kinds'], rp['rows'], rp['layout'], rp['rax'], rp['cax'])
        res = eval_bloc(fm.build(), fm, rp['k'])
    elif rp.get('c') == 'series':
        sm = SeriesModel(rp['kind'], rp['n'], rp.get('ax', 'str'))
        res = eval_series(sm.build(), sm, rp['route'], rp['k'])
    else:
        fm = FrameModel(rp['kinds'], rp['rows'], rp['layout'], rp.get('rax', 'str'), rp.get('cax', 'str'))
        res, _ = eval_frame(fm.build(), fm, rp['route'], rp['rk'], rp['ck'], blame=False)
    ok, key, what, _, how = res
    return dict(outcome='pass' if ok else 'fail', key=key, what=what, how=how)
