"""C08 bounded stand-in (supplement): Frame.astype[key](dtype) changes exactly the addressed columns, for EVERY subset of
columns of every dtype-safe block layout.  Added after a seeded change in the splice loop of TypeBlocks._astype_blocks
(a `break` instead of `continue` when a block already has the requested dtype) was missed by the sampled astype cases."""
from __future__ import annotations
import itertools
import numpy as np
from .common import Report, layouts_dtype_safe, frame_from

KIND = {'i': lambda r, j: np.arange(r, dtype=np.int64) + 10 * j, 'f': lambda r, j: np.arange(r, dtype=np.float64) + 0.5 + j,
        'b': lambda r, j: (np.arange(r) + j) % 2 == 0}
TARGETS = {'float': np.dtype('float64'), 'int': np.dtype('int64'), 'object': np.dtype(object)}


def cases(tier):
    ms = (2, 3, 4, 5) if tier == 'quick' else (2, 3, 4, 5, 6)
    for m in ms:
        alphabet = 'if' if m >= 5 else 'ifb'
        for kinds in itertools.product(alphabet, repeat=m):
            if m >= 5 and tier == 'quick' and sum(k == 'i' for k in kinds) not in (1, 2, 3):
                continue
            yield m, kinds


def run(repo, task):
    import static_frame as sf
    rep = Report('C08-astype-exhaustive', task,
                 rule='every assignment of int64/float64/bool to m<=5 columns x every dtype-safe 1-D/2-D layout x every non-empty subset of columns as a label '
                      'list (and as Boolean array / contiguous slice) x target dtype in {float64,int64,object}; non-trivial when at least one addressed column changes dtype',
                 bound='columns <= 5 (6 thorough), rows = 2')
    rows = 2
    for (m, kinds) in rep.shard(cases(task.get('tier', 'quick'))):
        cols = [KIND[k](rows, j) for j, k in enumerate(kinds)]
        labels = [chr(ord('a') + j) for j in range(m)]
        for lay in layouts_dtype_safe(cols):
            f = frame_from(cols, lay, index=list(range(rows)), column_labels=labels)
            before = [b.copy() for b in f._blocks._blocks]
            for r_ in range(1, m + 1):
                for sub in itertools.combinations(range(m), r_):
                    for tname, tdt in TARGETS.items():
                        forms = [('list', [labels[j] for j in sub])]
                        if sub == tuple(range(sub[0], sub[-1] + 1)):
                            forms.append(('slice', slice(labels[sub[0]], labels[sub[-1]])))
                        if tname == 'float':
                            forms.append(('bool', np.array([j in sub for j in range(m)])))
                        for fname, key in forms:
                            rp = dict(kinds=''.join(kinds), layout=[list(x) for x in lay], sub=list(sub), target=tname, form=fname)
                            try:
                                g = f.astype[key](tdt)
                            except Exception as e:
                                rep.count()
                                rep.fail(f'C08:astype-exhaustive:raises:{type(e).__name__}:{fname}', f'astype[{key!r}]({tdt}) raised {e!r} on kinds={kinds} layout={lay}', rp)
                                continue
                            got = list(g.dtypes.values)
                            want = [tdt if j in sub else cols[j].dtype for j in range(m)]
                            changed = any(cols[j].dtype != tdt for j in sub)
                            rep.count(distinct_key=(kinds, lay, sub, tname, fname) if changed else None,
                                      sample=dict(rp, result=[str(d) for d in got]))
                            ok = got == want
                            if ok:
                                v = g.values
                                for j in range(m):
                                    ref = cols[j].astype(tdt) if j in sub else cols[j]      # an addressed column holds NumPy's own conversion of its values
                                    for i in range(rows):
                                        if v[i, j] != ref[i]:
                                            ok = False
                            rep.check(ok and list(g.columns.values) == labels, f'C08:astype-exhaustive:wrong-dtypes-or-values:{fname}',
                                      f'astype[{key!r}]({tdt}) on kinds={kinds} layout={lay}: dtypes {[str(d) for d in got]} expected {[str(d) for d in want]}', rp)
            after = f._blocks._blocks
            rep.check(len(before) == len(after) and all(a.dtype == b.dtype and (a == b).all() for a, b in zip(before, after)),
                      'C08:astype-exhaustive:original-mutated', f'the original Frame changed (kinds={kinds}, layout={lay})', dict(kinds=''.join(kinds), layout=[list(x) for x in lay]))
    return rep.done()


def replay(repo, rp):
    rows = 2
    kinds = rp['kinds']
    cols = [KIND[k](rows, j) for j, k in enumerate(kinds)]
    labels = [chr(ord('a') + j) for j in range(len(kinds))]
    f = frame_from(cols, tuple(tuple(x) for x in rp['layout']), index=list(range(rows)), column_labels=labels)
    if 'sub' not in rp:
        return dict(outcome='pass')
    sub, tdt = rp['sub'], TARGETS[rp['target']]
    key = [labels[j] for j in sub] if rp['form'] == 'list' else (slice(labels[sub[0]], labels[sub[-1]]) if rp['form'] == 'slice' else np.array([j in sub for j in range(len(kinds))]))
    try:
        got = list(f.astype[key](tdt).dtypes.values)
    except Exception as e:
        return dict(outcome='fail', raised=repr(e))
    want = [tdt if j in sub else cols[j].dtype for j in range(len(kinds))]
    return dict(outcome='pass' if got == want else 'fail', got=[str(d) for d in got], want=[str(d) for d in want])
