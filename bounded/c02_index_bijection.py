"""C02 bounded stand-in: every index holds pairwise distinct labels and realises an exact
label <-> position bijection.

Contract (run-time, real package), taken from the property statement:
  * construction / derivation from non-unique labels (or, for hierarchies, a label order that is not a
    tree) never yields an index: it raises an index-initialisation error (ErrorInitIndex family);
  * for an index of n labels L[0..n-1]:  len == n;  values, iteration, reversed iteration, iloc[i] and
    positions (== arange(n)) all present L in the same order;  loc_to_iloc(L[i]) == i;  `L[i] in index`;
    a label that is not Python-equal to any held label is not `in` the index and is not resolved to a
    position by loc_to_iloc;
  * the same after every append/extend history on the grow-only forms (caches read before and after).
Reference model: a plain Python list of labels (list of tuples for hierarchies).
"""
from __future__ import annotations
import copy
import datetime
import itertools
import warnings

import numpy as np
from .common import Report

PID = 'C02'
D = datetime.date
DT = datetime.datetime


def dt(s, u):
    return np.datetime64(s, u)


# ---------------------------------------------------------------------------------------------
# label comparison by value (no dtype demands)

def norm(x):
    if isinstance(x, (np.datetime64,)):
        if np.isnat(x):
            return ('dt', 'NaT')
        return ('dt', str(x.astype('datetime64[ns]')))  # all labels used here lie in 1990..2040
    if isinstance(x, (DT, D)):
        return norm(np.datetime64(x))
    if isinstance(x, np.generic):
        x = x.item()
        if isinstance(x, (DT, D)):
            return norm(np.datetime64(x))
    if isinstance(x, (bool, np.bool_)):
        return ('n', int(x))  # Python equality (the index's own notion of a key): True == 1, False == 0
    if isinstance(x, float):
        if x != x:
            return ('NaN',)
        return ('n', int(x)) if x.is_integer() else ('n', x)
    if isinstance(x, int):
        return ('n', x)
    if isinstance(x, str):
        return ('s', x)
    if x is None:
        return ('N',)
    if isinstance(x, (tuple, list, np.ndarray)):
        return ('t', tuple(norm(e) for e in x))
    return ('o', repr(x))


def eq(a, b):
    return norm(a) == norm(b)


def eq_seq(a, b):
    a, b = list(a), list(b)
    return len(a) == len(b) and all(eq(x, y) for x, y in zip(a, b))


def has_nan(x):
    if isinstance(x, (tuple, list)):
        return any(has_nan(e) for e in x)
    return isinstance(x, (float, np.floating)) and x != x


def py_equal(p, l):
    """Python-level equality (what a hash map would use); 'True' also when the comparison is not decidable"""
    try:
        with warnings.catch_warnings():
            warnings.simplefilter('ignore')
            r = (p == l)
        if isinstance(r, np.ndarray):
            return bool(r.all()) if r.size else False
        return bool(r)
    except Exception:
        return True


def pclass(p):
    if isinstance(p, (bool, np.bool_)):
        return 'bool'
    if isinstance(p, (int, np.integer)):
        return 'neg-int' if p < 0 else 'int'
    if isinstance(p, (float, np.floating)):
        return 'float'
    if isinstance(p, str):
        return 'str'
    if p is None:
        return 'none'
    if isinstance(p, tuple):
        return 'tuple'
    if isinstance(p, (np.datetime64, D, DT)):
        return 'date'
    return 'other'


def ns_ints_to_dt(got, expect):
    """got with plain ints replaced by datetime64[ns] wherever the expected label is a datetime (numpy turns
    datetime64[ns] into int when an array is cast to object)"""
    def fix(g, e):
        if isinstance(g, (tuple, list)) and isinstance(e, (tuple, list)) and len(g) == len(e):
            return tuple(fix(a, b) for a, b in zip(g, e))
        if is_intlike(g) and isinstance(e, (np.datetime64, D, DT)):
            return np.datetime64(int(g), 'ns')
        return g
    got, expect = list(got), list(expect)
    if len(got) != len(expect):
        return got
    return [fix(g, e) for g, e in zip(got, expect)]


def is_intlike(r):
    return isinstance(r, (int, np.integer)) and not isinstance(r, (bool, np.bool_))


def obs(f):
    try:
        with warnings.catch_warnings():
            warnings.simplefilter('ignore')
            return ('ok', f())
    except Exception as e:  # observation of the operation under test
        return ('exc', e)


def is_init_error(e):
    """the property's "index-initialisation error": the ErrorInitIndex* family"""
    return any(c.__name__.startswith('ErrorInitIndex') for c in type(e).__mro__)


def is_tree_order(rows):
    """rows: list of equal-length tuples; True iff pairwise distinct and every prefix occupies one contiguous run"""
    rows = [norm(r)[1] for r in rows]
    if len(set(rows)) != len(rows):
        return False
    if not rows:
        return True
    depth = len(rows[0])
    if any(len(r) != depth for r in rows):
        return False
    for d in range(1, depth):
        seen, last = set(), None
        for r in rows:
            p = r[:d]
            if p != last:
                if p in seen:
                    return False
                seen.add(p)
                last = p
    return True


def all_distinct(labels):
    ks = [norm(l) for l in labels]
    return len(set(ks)) == len(ks)


class Sink:
    """collects failures like Report.check; used to try several admissible reference models"""
    def __init__(self):
        self.failures = []

    def check(self, cond, key, what, replay=None):
        if not cond:
            self.failures.append((key, what, replay))
        return bool(cond)

    def fail(self, key, what, replay=None):
        return self.check(False, key, what, replay)

    def flush(self, rep):
        for key, what, replay in self.failures:
            rep.check(False, key, what, replay)


# ---------------------------------------------------------------------------------------------
# kinds

def kind_of(ix):
    import static_frame as sf
    # the grow-only classes share the code of their static twins: one key per kind (the class is in the replay data)
    if isinstance(ix, sf.IndexHierarchy):
        return 'ih'
    from static_frame.core.index_datetime import IndexDatetime
    if isinstance(ix, IndexDatetime):
        return 'dt'
    if getattr(ix, '_map', 0) is None:
        return 'auto'
    return 'plain'


SCALAR_POOL = None


def scalar_pool():
    global SCALAR_POOL
    if SCALAR_POOL is None:
        SCALAR_POOL = [-1, -7, 0, 1, 2, 3, 99, 1.0, 0.0, 2.5, -0.5, True, False, 'a', 'zz', '', '1', None, (1,), ('a', 1),
                       ('q', 'q'), D(1999, 1, 1), dt('1999-01-01', 'D'), dt('1999', 'Y'), dt('1999-01-01T00:00:01', 's'),
                       dt('1999-01-01T00:00:00.000000001', 'ns')]
    return SCALAR_POOL


def probes_for(model, hier, extra=()):
    """labels to probe for absence; filtered later against Python equality with the held labels"""
    n = len(model)
    out = []
    if hier:
        rows = [tuple(r) for r in model]
        depth = len(rows[0]) if rows else 2
        for a in rows[:4]:
            for b in rows[:4]:
                out.append(('tuple', a[:-1] + b[-1:]))
                out.append(('tuple', b[:1] + a[1:]))
        if rows:
            out.append(('tuple-short', rows[0][:-1]))
            out.append(('tuple-short', rows[-1][:1]))
            out.append(('tuple-long', rows[0] + rows[0][-1:]))
            out.append(('tuple-long', rows[-1] + rows[-1][-1:]))
            out.append(('scalar', rows[0][0]))
            out.append(('scalar', rows[-1][-1]))
        out.append(('tuple', ('zz',) * depth))
        out.append(('tuple', (-1,) * depth))
        out.append(('none', None))
        out.append(('scalar', 'zz'))
        out.append(('scalar', 0))
    else:
        for p in list(scalar_pool()) + [n, n + 1, -n, -n - 1]:
            out.append((pclass(p), p))
    for p in extra:
        out.append((('tuple' if hier else pclass(p)), p))
    return out


# ---------------------------------------------------------------------------------------------
# the contract

def contract(sink, ix, model, rp, probes=True, extra_probes=(), area=None, group='ctor', onekey=None):
    """ix: index under test; model: list of labels (tuples for hierarchies) it must present"""
    import static_frame as sf
    kind = area or kind_of(ix)
    hier = isinstance(ix, sf.IndexHierarchy)
    n = len(model)

    def K(c):  # order / lookup checks: keyed by index kind and route group
        return onekey or f'{PID}:{kind}:{group}:{c}'

    def KP(c):  # absence probes: a property of the index kind, whatever route produced it
        return onekey or f'{PID}:{kind}:{c}'

    def seq_check(name, thunk, expect, conv=list):
        o = obs(thunk)
        if o[0] == 'exc':
            return sink.fail(K(f'{name}-raises:{type(o[1]).__name__}'), f'{name} raises {o[1]!r}; expected labels {expect!r}', rp)
        try:
            got = conv(o[1])
        except Exception as e:
            return sink.fail(K(f'{name}-raises:{type(e).__name__}'), f'{name} result unusable: {e!r}', rp)
        if not eq_seq(got, expect) and eq_seq(ns_ints_to_dt(got, expect), expect):
            return sink.fail(KP('ns-datetime-shown-as-int'), f'{name} presents {got!r}, expected {expect!r} (datetime64[ns] labels surface as integers)', rp)
        return sink.check(eq_seq(got, expect), K(name), f'{name} presents {got!r}, expected {expect!r}', rp)

    o = obs(lambda: len(ix))
    sink.check(o[0] == 'ok' and o[1] == n, K('len'), f'len(index) gives {o[1]!r}, expected {n} for labels {model!r}', rp)

    def rows_of(v):
        if hier:
            return [tuple(r) for r in v] if len(v) else []
        return list(v)

    seq_check('values-order', lambda: ix.values, model, rows_of)
    if hier and n:
        o = obs(lambda: ix.values.shape)
        sink.check(o[0] == 'ok' and tuple(o[1]) == (n, len(model[0])), K('values-shape'), f'values shape {o[1]!r} for {n} labels of depth {len(model[0])}', rp)
    seq_check('iter-order', lambda: list(ix), model)
    seq_check('reversed-order', lambda: list(reversed(ix)), model[::-1])
    seq_check('positions', lambda: ix.positions, list(range(n)))
    seq_check('iloc-order', lambda: [ix.iloc[i] for i in range(n)], model)
    if n:
        o = obs(lambda: ix.iloc[n])
        sink.check(o[0] == 'exc', K('iloc-past-end'), f'iloc[{n}] on an index of {n} labels returned {o[1]!r}', rp)

    # presented labels (what the index itself hands out), used for the lookup as well as the model's objects
    o = obs(lambda: list(ix))
    presented = o[1] if o[0] == 'ok' and len(o[1]) == n else [None] * n
    o = obs(lambda: rows_of(ix.values))
    if o[0] == 'ok':
        sink.check(all_distinct(o[1]), K('labels-not-distinct'), f'values holds repeated labels: {o[1]!r}', rp)

    for i, lab in enumerate(model):
        if has_nan(lab):
            continue  # NaN labels are outside the quantifier
        forms = [lab]
        if presented[i] is not None and eq(presented[i], lab):
            forms.append(presented[i])
        for form in forms:
            o = obs(lambda: ix.loc_to_iloc(form))
            if o[0] == 'exc':
                sink.fail(K(f'lookup-held-label-raises:{type(o[1]).__name__}'), f'loc_to_iloc({form!r}) raises {o[1]!r}; label is at position {i} of {model!r}', rp)
            else:
                sink.check(is_intlike(o[1]) and o[1] == i, K('lookup-held-label'), f'loc_to_iloc({form!r}) == {o[1]!r}, expected {i} in {model!r}', rp)
            o = obs(lambda: form in ix)
            if o[0] == 'exc':
                sink.fail(K(f'contains-held-label-raises:{type(o[1]).__name__}'), f'({form!r} in index) raises {o[1]!r}', rp)
            else:
                sink.check(o[1] is True or o[1] == True, K('contains-held-label'), f'({form!r} in index) is {o[1]!r} for held labels {model!r}', rp)  # noqa: E712

    if probes:
        seen = set()
        for pc, p in probes_for(model, hier, extra_probes):
            kp = (pc, norm(p), type(p).__name__)
            if kp in seen:
                continue
            seen.add(kp)
            if any(py_equal(p, l) for l in model):
                continue  # Python-equal to a held label (incl. 1.0 vs 1, True vs 1): nothing demanded
            o = obs(lambda: p in ix)
            if o[0] == 'ok':
                sink.check(not o[1], KP(f'contains-absent-label:{pc}'), f'({p!r} in index) is {o[1]!r} but the held labels are {model!r}', rp)
            # an exception from `in` for a foreign-typed probe is tolerated (see report)
            o = obs(lambda: ix.loc_to_iloc(p))
            if o[0] == 'ok':
                sink.check(not is_intlike(o[1]), KP(f'absent-label-resolves:{pc}'), f'loc_to_iloc({p!r}) returned position {o[1]!r} but the held labels are {model!r}', rp)


# ---------------------------------------------------------------------------------------------
# label tables (JSON-addressable: family name + list number)

NAN = float('nan')
_FAM = None


def families():
    global _FAM
    if _FAM is None:
        _FAM = {
            'int': dict(lists=[[3, 1, 2], [0, 1, 2], [5], [-1, 0, 7, 2], []], fresh=[40, 41, 42, 43, 44, 45, 46, 47, 48], other=['zz', 2.5, None],
                        dups=[[1, 2, 1], [0, 0]], dtype=np.int64, sortable=True),
            'str': dict(lists=[['a', 'b', 'c'], ['bb', '', 'a'], ['x'], []], fresh=['p', 'q', 'r', 's', 't', 'u', 'v', 'w', 'y'], other=[7, None, 1.5],
                        dups=[['a', 'a'], ['a', 'b', 'a']], dtype=str, sortable=True),
            'bool': dict(lists=[[True, False], [False]], fresh=[True], other=['zz', 5, None], dups=[[True, True], [False, True, False]], dtype=bool, sortable=True),
            'float': dict(lists=[[1.5, -2.0, 0.25], [0.0, 1.0, 2.0], [1.0, NAN, 2.5]], fresh=[10.5, 11.5, 12.5, 13.5, 14.5, 15.5, 16.5, 17.5, 18.5], other=['zz', None, (1,)],
                          dups=[[1.5, 1.5], [0.5, 2.0, 0.5]], dtype=np.float64, sortable=True),
            'tuple': dict(lists=[[('a', 1), ('b', 2), ('a', 2)], [(1, 2), (1, 3), (2,)]], fresh=[('z', 9), ('z', 8), ('y', 7), ('y', 6), ('w', 5), ('w', 4), ('v', 3), ('v', 2), ('u', 1)],
                          other=['zz', 3, None], dups=[[('a', 1), ('a', 1)], [('a', 1), ('b', 1), ('a', 1)]], dtype='tuple', sortable=False),
            'date': dict(lists=[[D(2020, 1, 1), D(2019, 12, 31), D(2020, 2, 29)], [D(2021, 5, 5)]], fresh=[D(2030, 1, i) for i in range(1, 10)], other=['zz', 3, None],
                         dups=[[D(2020, 1, 1), D(2020, 1, 1)]], dtype=object, sortable=True),
            'dt64D': dict(lists=[[dt('2020-01-01', 'D'), dt('2019-12-31', 'D'), dt('2020-02-29', 'D')]], fresh=[dt(f'2030-01-0{i}', 'D') for i in range(1, 10)], other=['zz', 3, None],
                          dups=[[dt('2020-01-01', 'D'), dt('2020-01-01', 'D')]], dtype='datetime64[D]', sortable=True),
            'dt64s': dict(lists=[[dt('2020-01-01T00:00:01', 's'), dt('2020-01-01T00:00:00', 's'), dt('2019-06-01T12:00:00', 's')]],
                          fresh=[dt(f'2030-01-01T00:00:0{i}', 's') for i in range(1, 10)], other=['zz', 3, None],
                          dups=[[dt('2020-01-01T00:00:01', 's')] * 2], dtype='datetime64[s]', sortable=True),
            'dt64Y': dict(lists=[[dt('2020', 'Y'), dt('2018', 'Y'), dt('2019', 'Y')]], fresh=[dt(f'203{i}', 'Y') for i in range(1, 10)], other=['zz', None, 1.5],
                          dups=[[dt('2020', 'Y'), dt('2020', 'Y')]], dtype='datetime64[Y]', sortable=True),
            'dt64M': dict(lists=[[dt('2020-03', 'M'), dt('2020-01', 'M')]], fresh=[dt(f'2030-0{i}', 'M') for i in range(1, 10)], other=['zz', None, 1.5],
                          dups=[[dt('2020-03', 'M'), dt('2020-01', 'M'), dt('2020-03', 'M')]], dtype='datetime64[M]', sortable=True),
            'dt64ns': dict(lists=[[dt('2020-01-01T00:00:00.000000002', 'ns'), dt('2020-01-01T00:00:00.000000001', 'ns')]],
                           fresh=[dt(f'2030-01-01T00:00:00.00000000{i}', 'ns') for i in range(1, 10)], other=['zz', None, 1.5],
                           dups=[[dt('2020-01-01T00:00:00.000000001', 'ns')] * 2], dtype='datetime64[ns]', sortable=True),
            'mixed': dict(lists=[[1, 'a', None, (1, 2), 2.5], ['x', 3, False], [D(2020, 1, 1), 'a', 1]], fresh=['zz', 77, ('q',), 8.5, 'yy', 78, ('r', 1), 9.5, 'ww'], other=[None, -3, 'k'],
                          dups=[[1, 'a', 1], ['a', None, None]], dtype=object, sortable=False),
        }
    return _FAM


def as_array(labels, dtype):
    if dtype == 'tuple' or dtype is object:
        a = np.empty(len(labels), dtype=object)
        for i, l in enumerate(labels):
            a[i] = l
        return a
    return np.array(labels, dtype=dtype)


FORMS = ('list', 'tuple', 'gen', 'array', 'keys', 'array-ro')


def in_form(labels, form, dtype):
    if form == 'list':
        return list(labels)
    if form == 'tuple':
        return tuple(labels)
    if form == 'gen':
        return (x for x in labels)
    if form == 'keys':
        return dict.fromkeys(labels).keys()
    a = as_array(labels, dtype)
    if form == 'array-ro':
        a.flags.writeable = False
    return a


# typed datetime classes: name -> (unit, [input lists]) ; model = labels converted to the unit
def typed_inputs():
    return {
        'IndexDate': ('D', [[D(2020, 1, 1), D(2019, 12, 31), D(2020, 2, 29)], [dt('2020-01-01', 'D'), dt('2019-12-31', 'D')], ['2020-01-03', '2020-01-01'],
                            [D(2020, 1, 1), '2020-01-02', dt('2020-01-03', 'D')], [],
                            [D(2020, 1, 1), D(2020, 1, 1)], ['2020-01-03', dt('2020-01-03', 'D')]]),
        'IndexYear': ('Y', [[2020, 2018], ['2021', '2019', '2020'], [dt('2020', 'Y'), dt('2018', 'Y')], [dt('2020-01-01', 'D'), dt('2021-05-01', 'D')], [D(2020, 3, 3)],
                            [dt('2020-01-01', 'D'), dt('2020-05-01', 'D')], ['2020', dt('2020', 'Y')]]),
        'IndexYearMonth': ('M', [['2020-03', '2020-01'], [dt('2020-03', 'M'), dt('2020-01', 'M')], [dt('2020-01-01', 'D'), dt('2020-02-01', 'D')], [dt('2020-01-01', 'D'), dt('2020-01-20', 'D')]]),
        'IndexHour': ('h', [[dt('2020-01-01T05', 'h'), dt('2020-01-01T03', 'h')], [dt('2020-01-01T05', 'h')] * 2]),
        'IndexMinute': ('m', [[dt('2020-01-01T05:01', 'm'), dt('2020-01-01T05:00', 'm')]]),
        'IndexSecond': ('s', [[dt('2020-01-01T00:00:01', 's'), dt('2020-01-01T00:00:00', 's')], [DT(2020, 1, 1, 0, 0, 1), DT(2019, 1, 1)], ['2020-01-01T00:00:05', '2020-01-01T00:00:03'],
                              [DT(2020, 1, 1, 0, 0, 1), dt('2020-01-01T00:00:01', 's')]]),
        'IndexMillisecond': ('ms', [[dt('2020-01-01T00:00:00.002', 'ms'), dt('2020-01-01T00:00:00.001', 'ms')]]),
        'IndexMicrosecond': ('us', [[dt('2020-01-01T00:00:00.000002', 'us'), dt('2020-01-01T00:00:00.000001', 'us')]]),
        'IndexNanosecond': ('ns', [[dt('2020-01-01T00:00:00.000000002', 'ns'), dt('2020-01-01T00:00:00.000000001', 'ns')], [dt('2020-01-01T00:00:00.000000001', 'ns')] * 2]),
    }


def to_unit(x, unit):
    if isinstance(x, (int, np.integer)) and not isinstance(x, bool):
        return np.datetime64(str(x), unit)
    if isinstance(x, np.datetime64):
        return x.astype(f'datetime64[{unit}]')
    return np.datetime64(x, unit)


def typed_fresh(unit):
    base = {'Y': ['2031', '2032', '2033', '2034', '2035', '2036', '2037', '2038', '2039'],
            'M': [f'2030-0{i}' for i in range(1, 10)], 'D': [f'2030-01-0{i}' for i in range(1, 10)], 'h': [f'2030-01-01T0{i}' for i in range(1, 10)],
            'm': [f'2030-01-01T00:0{i}' for i in range(1, 10)], 's': [f'2030-01-01T00:00:0{i}' for i in range(1, 10)],
            'ms': [f'2030-01-01T00:00:00.00{i}' for i in range(1, 10)], 'us': [f'2030-01-01T00:00:00.00000{i}' for i in range(1, 10)],
            'ns': [f'2030-01-01T00:00:00.00000000{i}' for i in range(1, 10)]}[unit]
    return [np.datetime64(s, unit) for s in base]


# ---------------------------------------------------------------------------------------------
# evaluating one route

GROUPS = (('ctor', 'ctor'), ('from_', 'ctor'), ('rename', 'copy'), ('copy', 'copy'), ('deepcopy', 'copy'), ('iloc', 'select'), ('loc', 'select'),
          ('getitem', 'select'), ('drop', 'drop'), ('relabel', 'relabel'), ('roll', 'roll'), ('sort', 'sort'), ('union', 'setop'), ('intersection', 'setop'),
          ('difference', 'setop'), ('level', 'level'), ('flat', 'level'), ('astype', 'astype'), ('series', 'container'), ('frame', 'container'),
          ('rehierarch', 'rehierarch'), ('hist', 'history'))


def group_of(route):
    for prefix, g in GROUPS:
        if route.startswith(prefix):
            return g
    return 'other'


def result_rows(ix):
    import static_frame as sf
    v = ix.values
    if isinstance(ix, sf.IndexHierarchy):
        return [tuple(r) for r in v] if len(v) else []
    return list(v)


def eval_route(rep, base_kind, route, thunk, expect, rp, may_raise=False, only=None, group=None, empty=False, onekey=None):
    """expect: ('model', L) | ('set', L) | ('self',) | ('reject', 'duplicates'|'non-tree')"""
    import static_frame as sf
    if only is not None and route != only:
        return
    rp = dict(rp, route=route)
    group = group or group_of(route)
    o = obs(thunk)
    nontrivial = expect[0] == 'reject' or (len(expect) > 1 and len(expect[1]) > 0)
    rep.count(distinct_key=(tuple(sorted((k, str(v)) for k, v in rp.items())) if nontrivial else None),
              sample=dict(rp, expect=expect[0]))
    if o[0] == 'exc':
        e = o[1]
        if expect[0] == 'reject':
            rep.check(is_init_error(e), f'{PID}:{base_kind}:{route}:rejected-with-{type(e).__name__}',
                      f'{expect[1]} rejected, but with {e!r} instead of an index-initialisation error', rp)
        elif not may_raise:
            rep.fail(f'{PID}:{base_kind}:{group}:raises-{type(e).__name__}' + (':empty-index' if empty else ''), f'route {route} raises {e!r} on valid labels; expected {expect!r}', rp)
        return
    res = o[1]
    if not isinstance(res, (sf.Index, sf.IndexHierarchy)):
        rep.fail(f'{PID}:{base_kind}:{route}:not-an-index', f'route {route} returned {type(res).__name__}', rp)
        return
    if expect[0] == 'reject':
        shown = obs(lambda: result_rows(res))
        rep.fail(onekey or f'{PID}:{base_kind}:{route}:{expect[1]}-accepted', f'route {route} produced an index {shown[1]!r} from {expect[1]} labels instead of raising', rp)
        return
    if expect[0] == 'model':
        model = list(expect[1])
    else:
        got = obs(lambda: result_rows(res))
        if got[0] == 'exc':
            rep.fail(f'{PID}:{kind_of(res)}:values-order-raises:{type(got[1]).__name__}', f'values raises {got[1]!r} after {route}', rp)
            return
        model = got[1]
        if expect[0] == 'set':
            rep.check({norm(x) for x in model} == {norm(x) for x in expect[1]} and len(model) == len({norm(x) for x in expect[1]}),
                      f'{PID}:{base_kind}:{route}:label-set', f'route {route} holds {model!r}, expected the label set {expect[1]!r}', rp)
    contract(rep, res, model, rp, group=group, onekey=onekey)


def expect_of(labels, hier=False):
    """the property's verdict for a label sequence: an index presenting it, or rejection"""
    labels = list(labels)
    if hier:
        if not all_distinct(labels):
            return ('reject', 'duplicates')
        return ('model', labels) if is_tree_order(labels) else ('reject', 'non-tree')
    return ('model', labels) if all_distinct(labels) else ('reject', 'duplicates')


def sorted_model(model, reverse=False):
    return sorted(model, reverse=reverse)


def astype_expect(model, dtype, src_dtype=None):
    try:
        src = np.array(model) if src_dtype is None else as_array(model, src_dtype)
        with warnings.catch_warnings():
            warnings.simplefilter('ignore')
            out = list(src.astype(dtype))
    except Exception:
        return None
    return expect_of(out)


ASTYPE = {
    'int': [float, str, object, bool],
    'str': [object],
    'bool': [int, object],
    'float': [int, object],
    'tuple': [object],
    'date': ['datetime64[D]', 'datetime64[Y]'],
    'dt64D': ['datetime64[Y]', 'datetime64[s]', object, 'datetime64[M]'],
    'dt64s': ['datetime64[D]', 'datetime64[ns]'],
    'dt64Y': ['datetime64[D]'],
    'dt64M': ['datetime64[D]', 'datetime64[Y]'],
    'dt64ns': ['datetime64[s]', 'datetime64[us]'],
    'mixed': [object],
    'typed': ['datetime64[Y]', 'datetime64[s]', object, 'datetime64[D]'],
}


def flat_routes(ix, model, fresh, other, sortable, fam, cls, src_dtype=None):
    """derivation routes from a 1-D index `ix` whose labels are `model`"""
    import static_frame as sf
    n = len(model)
    nan = any(has_nan(m) for m in model)
    GO = not ix.STATIC
    twin = {True: sf.Index, False: sf.IndexGO}[GO] if kind_of(ix) in ('plain', 'auto') else None
    R = []

    tuple_labels = any(isinstance(m, tuple) for m in model)

    def add(route, thunk, expect, may_raise=False, group=None):
        if group is None and tuple_labels and route.startswith('level'):
            group = 'level/tuple-labels'  # tuples as labels inside a hierarchy: keyed apart
        R.append((route, thunk, expect, may_raise, group))

    add('ctor-from-index', lambda: cls(ix), ('model', model))
    if twin is not None:
        add('ctor-twin-class', lambda: twin(ix), ('model', model))
        add('ctor-twin-back', lambda: cls(twin(ix)), ('model', model))
    add('from_labels-values', lambda: cls.from_labels(ix.values), ('model', model))
    add('ctor-iter', lambda: cls(iter(ix)), ('model', model))
    add('rename', lambda: ix.rename('nm'), ('model', model))
    add('copy', lambda: ix.copy(), ('model', model))
    add('deepcopy', lambda: copy.deepcopy(ix), ('model', model))
    # selection
    add('iloc-rev-list', lambda: ix.iloc[list(range(n))[::-1]], ('model', model[::-1]))
    add('iloc-rev-slice', lambda: ix.iloc[::-1], ('model', model[::-1]))
    add('iloc-tail', lambda: ix.iloc[1:], ('model', model[1:]))
    add('iloc-step2', lambda: ix.iloc[::2], ('model', model[::2]))
    add('iloc-bool', lambda: ix.iloc[np.arange(n) % 2 == 1], ('model', model[1::2]))
    add('iloc-array', lambda: ix.iloc[np.arange(n)[::-1]], ('model', model[::-1]))
    if n:
        add('iloc-list-repeat', lambda: ix.iloc[[0, n - 1, 0]], ('reject', 'duplicates'))
        add('getitem-neg', lambda: ix[[-1]], ('model', model[-1:]))
    if n and not nan and model[n // 2] is not None:
        add('loc-slice-from', lambda: ix.loc[model[n // 2]:], ('model', model[n // 2:]))
        add('loc-slice-to', lambda: ix.loc[:model[n // 2]], ('model', model[:n // 2 + 1]))
    if n and not nan:
        add('loc-list', lambda: ix.loc[[model[-1], model[0]]] if n > 1 else ix.loc[[model[0]]], ('model', [model[-1], model[0]] if n > 1 else [model[0]]))
        add('loc-bool', lambda: ix.loc[np.arange(n) % 2 == 0], ('model', model[::2]))
        add('drop-loc-label', lambda: ix.drop.loc[model[0]], ('model', model[1:]))
        add('drop-loc-list', lambda: ix.drop.loc[[model[-1], model[0]]] if n > 1 else ix.drop.loc[[model[0]]], ('model', model[1:-1]))
    add('drop-iloc-0', lambda: ix.drop.iloc[0], ('model', model[1:]), may_raise=(n == 0))
    add('drop-iloc-list', lambda: ix.drop.iloc[[0, n - 1]], ('model', model[1:-1]), may_raise=(n == 0))
    add('drop-iloc-slice', lambda: ix.drop.iloc[1:], ('model', model[:1]))
    add('drop-iloc-bool', lambda: ix.drop.iloc[np.arange(n) % 2 == 0], ('model', model[1::2]))
    # relabel
    add('relabel-identity', lambda: ix.relabel(lambda x: x), ('model', model))
    if n:
        add('relabel-dict-fresh', lambda: ix.relabel({model[0]: fresh[0]}) if not nan else ix.relabel({}), ('model', ([fresh[0]] + model[1:]) if not nan else model))
        add('relabel-dict-swap', lambda: ix.relabel({model[0]: model[-1], model[-1]: model[0]}) if not nan else ix.relabel({}),
            ('model', ([model[-1]] + model[1:-1] + [model[0]] if n > 1 else model) if not nan else model))
    if n > 1 and not nan:
        add('relabel-dict-collide', lambda: ix.relabel({model[0]: model[1]}), ('reject', 'duplicates'))
        add('relabel-fn-constant', lambda: ix.relabel(lambda x: fresh[0]), ('reject', 'duplicates'))
    # roll
    for rname, k in (('roll1', 1), ('roll-1', -1), ('roll2', 2), ('roll-len', n), ('roll-len+1', n + 1), ('roll0', 0)):
        kk = (k % n) if n else 0
        add(rname, (lambda k=k: ix.roll(k)), ('model', (model[-kk:] + model[:-kk]) if kk else model))
    # sort
    if sortable and not nan:
        add('sort-asc', lambda: ix.sort(), ('model', sorted_model(model)))
        add('sort-desc', lambda: ix.sort(ascending=False), ('model', sorted_model(model, True)))
    else:
        add('sort-asc', lambda: ix.sort(), ('set', model) if not nan else ('self',), may_raise=True)
    # set operations
    oth = model[1:] + [fresh[0]]
    mk = {norm(x) for x in model}
    ok = {norm(x) for x in oth}
    uni = model + [fresh[0]]
    inter = model[1:]
    diff = model[:1]
    mr = (not sortable) or nan
    for oname, operand in (('index', lambda: cls(oth)), ('list', lambda: list(oth))):
        add(f'union-{oname}', (lambda operand=operand: ix.union(operand())), ('set', uni) if not nan else ('self',), may_raise=mr)
        add(f'intersection-{oname}', (lambda operand=operand: ix.intersection(operand())), ('set', inter) if not nan else ('self',), may_raise=mr)
        add(f'difference-{oname}', (lambda operand=operand: ix.difference(operand())), ('set', diff) if not nan else ('self',), may_raise=mr)
    add('union-self', lambda: ix.union(cls(model)), ('set', model) if not nan else ('self',), may_raise=mr)
    add('intersection-self', lambda: ix.intersection(cls(model)), ('set', model) if not nan else ('self',), may_raise=mr)
    add('difference-self', lambda: ix.difference(cls(model)), ('set', []), may_raise=mr)
    add('union-reversed', lambda: ix.union(cls(model[::-1])), ('set', model) if not nan else ('self',), may_raise=mr)
    # hierarchy routes
    add('level_add', lambda: ix.level_add('x'), ('model', [('x', m) for m in model]), may_raise=(n == 0))
    add('level_add-level_drop', lambda: ix.level_add('x').level_drop(1), ('model', model), may_raise=(n == 0))
    add('level_add-flat', lambda: ix.level_add(7).flat(), ('model', [(7, m) for m in model]), may_raise=(n == 0))
    # astype
    for dtp in ASTYPE['typed' if kind_of(ix) == 'dt' else fam]:
        ex = astype_expect(model, dtp, src_dtype) if not nan else None
        if ex is not None:
            add(f'astype-{np.dtype(dtp).str if not isinstance(dtp, type) else dtp.__name__}', (lambda dtp=dtp: ix.astype(dtp)), ex)
    # through containers
    add('series-index', lambda: sf.Series(np.arange(n), index=ix).index, ('model', model))
    add('series-iloc-rev-index', lambda: sf.Series(np.arange(n), index=ix).iloc[::-1].index, ('model', model[::-1]))
    add('series-roll-index', lambda: sf.Series(np.arange(n), index=ix).roll(1, include_index=True).index, ('model', model[-1:] + model[:-1]), may_raise=(n == 0))
    add('frame-columns', lambda: (sf.FrameGO if GO else sf.Frame)(np.arange(n).reshape(1, n), columns=ix).columns, ('model', model))
    if n:
        add('frame-T-index', lambda: sf.Frame(np.arange(n).reshape(1, n), columns=ix).T.index, ('model', model))
    add('frame-iloc-cols', lambda: sf.Frame(np.arange(n).reshape(1, n), columns=ix).iloc[:, ::-1].columns, ('model', model[::-1]))
    if n and not nan:
        add('series-loc-list-index', lambda: sf.Series(np.arange(n), index=ix).loc[[model[-1], model[0]][:max(1, min(2, n))]].index, ('model', [model[-1], model[0]][:max(1, min(2, n))] if n > 1 else [model[0]]))
        add('series-drop-loc-index', lambda: sf.Series(np.arange(n), index=ix).drop.loc[model[0]].index, ('model', model[1:]))
        add('series-relabel-dict-index', lambda: sf.Series(np.arange(n), index=ix).relabel({model[0]: fresh[1]}).index, ('model', [fresh[1]] + model[1:]))
        if not any(isinstance(m, bool) for m in model):
            add('series-reindex-index', lambda: sf.Series(np.arange(n), index=ix).reindex(model[::-1] + [fresh[0]]).index, ('model', model[::-1] + [fresh[0]]))
        add('frame-drop-col', lambda: sf.Frame(np.arange(n).reshape(1, n), columns=ix).drop[model[0]].columns, ('model', model[1:]))
        if n > 1:
            add('series-relabel-collide', lambda: sf.Series(np.arange(n), index=ix).relabel({model[0]: model[1]}).index, ('reject', 'duplicates'))
            if not any(isinstance(m, bool) for m in model):
                add('series-reindex-repeat', lambda: sf.Series(np.arange(n), index=ix).reindex([model[0], model[1], model[0]]).index, ('reject', 'duplicates'))
    if sortable and not nan:
        add('series-sort_index', lambda: sf.Series(np.arange(n), index=ix).sort_index().index, ('model', sorted_model(model)))
    return R


# ---------------------------------------------------------------------------------------------
# case families: flat constructors + derivations, duplicate rejection, typed datetime, auto-integer

def cls_by_name(name):
    import static_frame as sf
    return getattr(sf, name)


def flat_cases(tier):
    fams = families()
    for fam, info in fams.items():
        for li in range(len(info['lists'])):
            for cls in ('Index', 'IndexGO'):
                for form in FORMS:
                    yield dict(area='flat', fam=fam, li=li, cls=cls, form=form)
        for di in range(len(info['dups'])):
            for cls in ('Index', 'IndexGO'):
                for form in tuple(f for f in FORMS if f != 'keys') + ('from_labels', 'series-index-arg', 'frame-columns-arg', 'frame-index-arg', 'series-from_items', 'index-of-index', 'ctor-name'):
                    yield dict(area='dup', fam=fam, li=di, cls=cls, form=form)
    for name, (unit, lists) in typed_inputs().items():
        for li in range(len(lists)):
            for go in ('', 'GO'):
                for form in ('list', 'gen', 'array'):
                    yield dict(area='typed', cls=name + go, li=li, form=form)
    for src in AUTO_SOURCES:
        for n in range(0, 5):
            yield dict(area='auto', src=src, n=n)
    for spec in range(len(CTOR_DTYPE)):
        for cls in ('Index', 'IndexGO'):
            yield dict(area='ctor-dtype', li=spec, cls=cls)


CTOR_DTYPE = [([3, 1, 2], 'float64'), ([3, 1], 'str'), ([1.5, 2.7], 'int64'), ([1.5, 1.2], 'int64'), ([1, 2], 'object'), (['2020-01-01', '2020-02-01'], 'datetime64[D]'),
              (['2020-01-01', '2020-01-02'], 'datetime64[M]'), ([True, False], 'int64'), ([0, 1, 2], 'bool')]

AUTO_SOURCES = ('series', 'series-go-none', 'frame-index', 'frame-columns', 'framego-columns', 'factory-static', 'factory-go', 'ctor-loc_is_iloc', 'ctor-go-loc_is_iloc',
                'series-relabel-auto', 'frame-relabel-auto', 'series-from_concat-auto', 'frame-from_concat-auto')


def auto_index(src, n):
    import static_frame as sf
    from static_frame.core.index_auto import IndexAutoFactory
    if src == 'series':
        return sf.Series(np.arange(n) * 10).index
    if src == 'series-go-none':
        return sf.Series(list('abcdefg'[:n]), index=None).index
    if src == 'frame-index':
        return sf.Frame(np.arange(n * 2).reshape(n, 2)).index
    if src == 'frame-columns':
        return sf.Frame(np.arange(n * 2).reshape(2, n)).columns
    if src == 'framego-columns':
        return sf.FrameGO(np.arange(n * 2).reshape(2, n)).columns
    if src == 'factory-static':
        return IndexAutoFactory.from_optional_constructor(n, default_constructor=sf.Index)
    if src == 'factory-go':
        return IndexAutoFactory.from_optional_constructor(n, default_constructor=sf.IndexGO)
    if src == 'ctor-loc_is_iloc':
        return sf.Index(range(n), loc_is_iloc=True)
    if src == 'ctor-go-loc_is_iloc':
        return sf.IndexGO(np.arange(n), loc_is_iloc=True)
    if src == 'series-relabel-auto':
        return sf.Series(np.arange(n), index=list('abcdefg'[:n])).relabel(sf.IndexAutoFactory).index
    if src == 'frame-relabel-auto':
        return sf.Frame(np.arange(n * 2).reshape(2, n), columns=list('abcdefg'[:n])).relabel(columns=sf.IndexAutoFactory).columns
    if src == 'series-from_concat-auto':
        return sf.Series.from_concat([sf.Series(np.arange(n), index=list('abcdefg'[:n])), sf.Series((), index=())], index=sf.IndexAutoFactory).index
    if src == 'frame-from_concat-auto':
        k = n // 2
        return sf.Frame.from_concat([sf.Frame(np.arange(k * 2).reshape(k, 2)), sf.Frame(np.arange((n - k) * 2).reshape(n - k, 2))], index=sf.IndexAutoFactory).index
    raise KeyError(src)


def build_dup(cls, labels, form, dtype):
    import static_frame as sf
    n = len(labels)
    if form in FORMS:
        return cls(in_form(labels, form, dtype))
    if form == 'from_labels':
        return cls.from_labels(list(labels))
    if form == 'ctor-name':
        return cls(list(labels), name='nm')
    if form == 'index-of-index':  # labels reach the constructor through a Series (values are taken as labels)
        return cls(sf.Series(as_array(labels, dtype)))
    ic = cls
    if form == 'series-index-arg':
        return sf.Series(np.arange(n), index=list(labels), index_constructor=ic).index
    if form == 'frame-columns-arg':
        return (sf.Frame if cls.STATIC else sf.FrameGO)(np.arange(n).reshape(1, n), columns=list(labels)).columns
    if form == 'frame-index-arg':
        return sf.Frame(np.arange(n).reshape(n, 1), index=list(labels)).index
    if form == 'series-from_items':
        return sf.Series.from_items(((l, i) for i, l in enumerate(labels)), index_constructor=ic).index
    raise KeyError(form)


def eval_flat_case(rep, case, only=None):
    import static_frame as sf
    area = case['area']
    rp = dict(case)
    if area in ('flat', 'dup'):
        info = families()[case['fam']]
        cls = cls_by_name(case['cls'])
        labels = info['lists' if area == 'flat' else 'dups'][case['li']]
        form = case['form']
        if form in ('array', 'array-ro') and info['dtype'] is None:
            return
        kind0 = 'plain'
        if area == 'dup':
            eval_route(rep, kind0, f'ctor-{form}', lambda: build_dup(cls, labels, form, info['dtype']), ('reject', 'duplicates'), rp, only=only)
            return
        eval_route(rep, kind0, f'ctor-{form}', lambda: cls(in_form(labels, form, info['dtype'])), ('model', labels), rp, only=only)
        if form == 'list':
            eval_route(rep, kind0, 'from_labels', lambda: cls.from_labels(list(labels)), ('model', labels), rp, only=only)
            eval_route(rep, kind0, 'ctor-name', lambda: cls(list(labels), name=('n', 1)), ('model', labels), rp, only=only)
            eval_route(rep, kind0, 'ctor-series-values', lambda: cls(sf.Series(as_array(labels, info['dtype']))), ('model', labels), rp, only=only)
        if form not in ('list', 'array'):
            return
        o = obs(lambda: cls(in_form(labels, form, info['dtype'])))
        if o[0] == 'exc':
            return  # reported above
        fresh = [f for f in info['fresh'] if not any(py_equal(f, l) for l in labels)] + [x for x in info['other'] if x is not None]
        for route, thunk, expect, may_raise, group in flat_routes(o[1], list(labels), fresh, info['other'], info['sortable'], case['fam'], cls, src_dtype=info['dtype']):
            eval_route(rep, kind0, route, thunk, expect, rp, may_raise, only=only, group=group, empty=not labels)
    elif area == 'typed':
        name = case['cls']
        base = name[:-2] if name.endswith('GO') else name
        unit, lists = typed_inputs()[base]
        raw = lists[case['li']]
        cls = cls_by_name(name)
        kind0 = 'dt'
        model = [to_unit(x, unit) for x in raw]
        form = case['form']
        if form == 'array':
            if not all(isinstance(x, np.datetime64) for x in raw) or len({x.dtype for x in raw}) > 1:
                return
            build = lambda: cls(np.array(raw))  # noqa: E731
        elif form == 'gen':
            build = lambda: cls(x for x in raw)  # noqa: E731
        else:
            build = lambda: cls(list(raw))  # noqa: E731
        if form != 'array' and any(isinstance(x, np.datetime64) and x.dtype != np.dtype(f'datetime64[{unit}]') for x in raw):
            return  # element-wise coarsening is refused by to_datetime64 (RuntimeError); only the array path casts
        ex = expect_of(model)
        eval_route(rep, kind0, f'ctor-{form}', build, ex, rp, only=only)
        if form == 'list' and all(isinstance(x, str) for x in raw) and raw:
            eval_route(rep, 'plain', 'astype-str-index-to-datetime', lambda: (sf.Index if cls.STATIC else sf.IndexGO)(list(raw)).astype(f'datetime64[{unit}]'), ex, rp, only=only)
        if ex[0] != 'model' or form == 'gen':
            return
        o = obs(build)
        if o[0] == 'exc':
            return
        fresh = typed_fresh(unit)
        for route, thunk, expect, may_raise, group in flat_routes(o[1], model, fresh, ['zz', None, 1.5], True, 'typed', cls):
            eval_route(rep, kind0, route, thunk, expect, rp, may_raise, only=only, group=group, empty=not model)
    elif area == 'auto':
        n = case['n']
        model = list(range(n))
        o = obs(lambda: auto_index(case['src'], n))
        kind0 = 'auto'
        eval_route(rep, kind0, 'ctor-' + case['src'], lambda: auto_index(case['src'], n), ('model', model), rp, only=only)
        if o[0] == 'exc':
            return
        ix = o[1]
        kind0 = kind_of(ix)
        for route, thunk, expect, may_raise, group in flat_routes(ix, model, [40, 41, 42], ['zz', None, 2.5], True, 'int', type(ix), src_dtype=np.int64):
            eval_route(rep, kind0, route, thunk, expect, rp, may_raise, only=only, group=group, empty=not model)
    elif area == 'ctor-dtype':
        labels, dtp = CTOR_DTYPE[case['li']]
        cls = cls_by_name(case['cls'])
        kind0 = 'plain'
        with warnings.catch_warnings():
            warnings.simplefilter('ignore')
            conv = list(np.array(labels).astype(dtp))
        eval_route(rep, kind0, 'ctor-dtype-arg', lambda: cls(list(labels), dtype=np.dtype(dtp)), expect_of(conv), rp, only=only,
                   onekey=f'{PID}:plain:ctor-dtype-arg:map-keyed-by-uncast-labels')
