"""C02 bounded stand-in: every index holds pairwise distinct labels and realises an exact
label <-> position bijection.

Contract (run-time, real package), taken from the property statement:
  * construction / derivation from non-unique labels (or, for hierarchies, a label order that is not a
    tree) never yields an index: it raises an index-initialisation error (ErrorInitIndex family);
  * for an index of n labels L[0..n-1]:  len == n;  values, iteration, reversed iteration, iloc[i] and
    positions (== arange(n)) all present L in the same order;  loc_to_iloc(L[i]) == i;  `L[i] in index`;
    a label that is not Python-equal to any held label is not `in` the index and is not resolved to a
    position by loc_to_iloc;
  * the same after every append/extend history on the grow-only forms (caches read before and after).
Reference model: a plain Python list of labels (list of tuples for hierarchies).
"""
from __future__ import annotations
import copy
import datetime
import itertools
import warnings

import numpy as np
from .common import Report

PID = 'C02'
D = datetime.date
DT = datetime.datetime


def dt(s, u):
    return np.datetime64(s, u)


# ---------------------------------------------------------------------------------------------
# label comparison by value (no dtype demands)

def norm(x):
    if isinstance(x, (np.datetime64,)):
        if np.isnat(x):
            return ('dt', 'NaT')
        return ('dt', str(x.astype('datetime64[ns]')))  # all labels used here lie in 1990..2040
    if isinstance(x, (DT, D)):
        return norm(np.datetime64(x))
    if isinstance(x, np.generic):
        x = x.item()
        if isinstance(x, (DT, D)):
            return norm(np.datetime64(x))
    if isinstance(x, (bool, np.bool_)):
        return ('n', int(x))  # Python equality (the index's own notion of a key): True == 1, False == 0
    if isinstance(x, float):
        if x != x:
            return ('NaN',)
        return ('n', int(x)) if x.is_integer() else ('n', x)
    if isinstance(x, int):
        return ('n', x)
    if isinstance(x, str):
        return ('s', x)
    if x is None:
        return ('N',)
    if isinstance(x, (tuple, list, np.ndarray)):
        return ('t', tuple(norm(e) for e in x))
    return ('o', repr(x))


def eq(a, b):
    return norm(a) == norm(b)


def eq_seq(a, b):
    a, b = list(a), list(b)
    return len(a) == len(b) and all(eq(x, y) for x, y in zip(a, b))


def has_nan(x):
    if isinstance(x, (tuple, list)):
        return any(has_nan(e) for e in x)
    return isinstance(x, (float, np.floating)) and x != x


def has_pydate(x):
    if isinstance(x, (tuple, list)):
        return any(has_pydate(e) for e in x)
    return isinstance(x, (D, DT))


def native(x):
    if isinstance(x, tuple):
        return tuple(native(e) for e in x)
    if isinstance(x, np.generic) and not isinstance(x, np.datetime64):
        return x.item()
    return x


def py_equal(p, l):
    """Python-level equality (what a hash map would use); 'True' also when the comparison is not decidable"""
    try:
        with warnings.catch_warnings():
            warnings.simplefilter('ignore')
            r = (p == l)
        if isinstance(r, np.ndarray):
            return bool(r.all()) if r.size else False
        return bool(r)
    except Exception:
        return True


def pclass(p):
    if isinstance(p, (bool, np.bool_)):
        return 'bool'
    if isinstance(p, (int, np.integer)):
        return 'neg-int' if p < 0 else 'int'
    if isinstance(p, (float, np.floating)):
        return 'float'
    if isinstance(p, str):
        return 'str'
    if p is None:
        return 'none'
    if isinstance(p, tuple):
        return 'tuple'
    if isinstance(p, (np.datetime64, D, DT)):
        return 'date'
    return 'other'


def ns_ints_to_dt(got, expect):
    """got with plain ints replaced by datetime64[ns] wherever the expected label is a datetime (numpy turns
    datetime64[ns] into int when an array is cast to object)"""
    def fix(g, e):
        if isinstance(g, (tuple, list)) and isinstance(e, (tuple, list)) and len(g) == len(e):
            return tuple(fix(a, b) for a, b in zip(g, e))
        if is_intlike(g) and isinstance(e, (np.datetime64, D, DT)):
            return np.datetime64(int(g), 'ns')
        return g
    got, expect = list(got), list(expect)
    if len(got) != len(expect):
        return got
    return [fix(g, e) for g, e in zip(got, expect)]


def is_intlike(r):
    return isinstance(r, (int, np.integer)) and not isinstance(r, (bool, np.bool_))


def obs(f):
    try:
        with warnings.catch_warnings():
            warnings.simplefilter('ignore')
            return ('ok', f())
    except Exception as e:  # observation of the operation under test
        return ('exc', e)


def is_init_error(e):
    """the property's "index-initialisation error": the ErrorInitIndex* family"""
    return any(c.__name__.startswith('ErrorInitIndex') for c in type(e).__mro__)


def is_tree_order(rows):
    """rows: list of equal-length tuples; True iff pairwise distinct and every prefix occupies one contiguous run"""
    rows = [norm(r)[1] for r in rows]
    if len(set(rows)) != len(rows):
        return False
    if not rows:
        return True
    depth = len(rows[0])
    if any(len(r) != depth for r in rows):
        return False
    for d in range(1, depth):
        seen, last = set(), None
        for r in rows:
            p = r[:d]
            if p != last:
                if p in seen:
                    return False
                seen.add(p)
                last = p
    return True


def all_distinct(labels):
    ks = [norm(l) for l in labels]
    return len(set(ks)) == len(ks)


class Sink:
    """collects failures like Report.check; used to try several admissible reference models"""
    def __init__(self):
        self.failures = []

    def check(self, cond, key, what, replay=None):
        if not cond:
            self.failures.append((key, what, replay))
        return bool(cond)

    def fail(self, key, what, replay=None):
        return self.check(False, key, what, replay)

    def flush(self, rep):
        for key, what, replay in self.failures:
            rep.check(False, key, what, replay)


# ---------------------------------------------------------------------------------------------
# kinds

def kind_of(ix):
    import static_frame as sf
    # the grow-only classes share the code of their static twins: one key per kind (the class is in the replay data)
    if isinstance(ix, sf.IndexHierarchy):
        return 'ih'
    from static_frame.core.index_datetime import IndexDatetime
    if isinstance(ix, IndexDatetime):
        return 'dt'
    if getattr(ix, '_map', 0) is None:
        return 'auto'
    return 'plain'


SCALAR_POOL = None
SMALL_POOL = [-1, 0, 99, 2.5, 'zz', None, ('q', 'q'), np.datetime64('1999-01-01', 'D')]


def scalar_pool():
    global SCALAR_POOL
    if SCALAR_POOL is None:
        SCALAR_POOL = [-1, -7, 0, 1, 2, 3, 99, 1.0, 0.0, 2.5, -0.5, True, False, 'a', 'zz', '', '1', None, (1,), ('a', 1),
                       ('q', 'q'), D(1999, 1, 1), dt('1999-01-01', 'D'), dt('1999', 'Y'), dt('1999-01-01T00:00:01', 's'),
                       dt('1999-01-01T00:00:00.000000001', 'ns')]
    return SCALAR_POOL


def probes_for(model, hier, extra=(), small=False):
    """labels to probe for absence; filtered later against Python equality with the held labels"""
    n = len(model)
    out = []
    if hier:
        rows = [tuple(r) for r in model]
        depth = len(rows[0]) if rows else 2
        for a in rows[:4]:
            for b in rows[:4]:
                out.append(('tuple', a[:-1] + b[-1:]))
                out.append(('tuple', b[:1] + a[1:]))
        if rows:
            out.append(('tuple-short', rows[0][:-1]))
            out.append(('tuple-short', rows[-1][:1]))
            out.append(('tuple-long', rows[0] + rows[0][-1:]))
            out.append(('tuple-long', rows[-1] + rows[-1][-1:]))
            out.append(('scalar', rows[0][0]))
            out.append(('scalar', rows[-1][-1]))
        out.append(('tuple', ('zz',) * depth))
        out.append(('tuple', (-1,) * depth))
        out.append(('none', None))
        out.append(('scalar', 'zz'))
        out.append(('scalar', 0))
    else:
        for p in (SMALL_POOL if small else list(scalar_pool())) + [n, n + 1, -n, -n - 1]:
            out.append((pclass(p), p))
    for p in extra:
        out.append((('tuple' if hier else pclass(p)), p))
    return out


# ---------------------------------------------------------------------------------------------
# the contract

def contract(sink, ix, model, rp, probes=True, extra_probes=(), area=None, group='ctor', onekey=None, onekey_probes=None, small_probes=False):
    """ix: index under test; model: list of labels (tuples for hierarchies) it must present"""
    import static_frame as sf
    kind = area or kind_of(ix)
    hier = isinstance(ix, sf.IndexHierarchy)
    n = len(model)

    state = dict(failed=False)

    def chk(cond, key, what, replay=None):
        if not cond:
            state['failed'] = True
        return sink.check(cond, key, what, replay)

    def flunk(key, what, replay=None):
        return chk(False, key, what, replay)

    def K(c):  # order / lookup checks: keyed by index kind and route group
        return onekey or f'{PID}:{kind}:{group}:{c}'

    def KP(c):  # absence probes: a property of the index kind, whatever route produced it
        return onekey_probes or f'{PID}:{kind}:{c}'

    def seq_check(name, thunk, expect, conv=list):
        o = obs(thunk)
        if o[0] == 'exc':
            return flunk(K(f'{name}-raises:{type(o[1]).__name__}'), f'{name} raises {o[1]!r}; expected labels {expect!r}', rp)
        try:
            got = conv(o[1])
        except Exception as e:
            return flunk(K(f'{name}-raises:{type(e).__name__}'), f'{name} result unusable: {e!r}', rp)
        if not eq_seq(got, expect) and eq_seq(ns_ints_to_dt(got, expect), expect):
            return flunk(KP('ns-datetime-shown-as-int'), f'{name} presents {got!r}, expected {expect!r} (datetime64[ns] labels surface as integers)', rp)
        return chk(eq_seq(got, expect), K(name), f'{name} presents {got!r}, expected {expect!r}', rp)

    o = obs(lambda: len(ix))
    chk(o[0] == 'ok' and o[1] == n, K('len'), f'len(index) gives {o[1]!r}, expected {n} for labels {model!r}', rp)

    def rows_of(v):
        if hier:
            return [tuple(r) for r in v] if len(v) else []
        return list(v)

    seq_check('values-order', lambda: ix.values, model, rows_of)
    if hier and n:
        o = obs(lambda: ix.values.shape)
        chk(o[0] == 'ok' and tuple(o[1]) == (n, len(model[0])), K('values-shape'), f'values shape {o[1]!r} for {n} labels of depth {len(model[0])}', rp)
    seq_check('iter-order', lambda: list(ix), model)
    seq_check('reversed-order', lambda: list(reversed(ix)), model[::-1])
    seq_check('positions', lambda: ix.positions, list(range(n)))
    seq_check('iloc-order', lambda: [ix.iloc[i] for i in range(n)], model)
    seq_check('iloc-negative', lambda: [ix.iloc[i - n] for i in range(n)], model)
    if n:
        o = obs(lambda: ix.iloc[n])
        chk(o[0] == 'exc', K('iloc-past-end'), f'iloc[{n}] on an index of {n} labels returned {o[1]!r}', rp)

    # presented labels (what the index itself hands out), used for the lookup as well as the model's objects
    o = obs(lambda: list(ix))
    presented = o[1] if o[0] == 'ok' and len(o[1]) == n else [None] * n
    o = obs(lambda: rows_of(ix.values))
    if o[0] == 'ok':
        chk(all_distinct(o[1]), K('labels-not-distinct'), f'values holds repeated labels: {o[1]!r}', rp)

    for i, lab in enumerate(model):
        if has_nan(lab):
            continue  # NaN labels are outside the quantifier
        # the label as the index hands it out, its Python-native form, and the model's own object (unless that is a
        # datetime.date/datetime standing for a datetime64 label: such conversions are a convenience, not the property)
        forms = []
        if presented[i] is not None and eq(presented[i], lab):
            forms.extend([presented[i], native(presented[i])])
        if not has_pydate(lab) or not forms:
            forms.append(lab)
        for form in forms:
            o = obs(lambda: ix.loc_to_iloc(form))
            if o[0] == 'exc':
                flunk(K(f'lookup-held-label-raises:{type(o[1]).__name__}'), f'loc_to_iloc({form!r}) raises {o[1]!r}; label is at position {i} of {model!r}', rp)
            else:
                chk(is_intlike(o[1]) and o[1] == i, K('lookup-held-label'), f'loc_to_iloc({form!r}) == {o[1]!r}, expected {i} in {model!r}', rp)
            o = obs(lambda: form in ix)
            if o[0] == 'exc':
                flunk(K(f'contains-held-label-raises:{type(o[1]).__name__}'), f'({form!r} in index) raises {o[1]!r}', rp)
            else:
                chk(o[1] is True or o[1] == True, K('contains-held-label'), f'({form!r} in index) is {o[1]!r} for held labels {model!r}', rp)  # noqa: E712

    if probes and not state['failed']:  # absence probes only on an index whose order/lookup views are sound
        seen = set()
        for pc, p in probes_for(model, hier, extra_probes, small_probes):
            kp = (pc, norm(p), type(p).__name__)
            if kp in seen:
                continue
            seen.add(kp)
            if any(py_equal(p, l) for l in model):
                continue  # Python-equal to a held label (incl. 1.0 vs 1, True vs 1): nothing demanded
            o = obs(lambda: p in ix)
            if o[0] == 'ok':
                chk(not o[1], KP(f'contains-absent-label:{pc}'), f'({p!r} in index) is {o[1]!r} but the held labels are {model!r}', rp)
            # an exception from `in` for a foreign-typed probe is tolerated (see report)
            o = obs(lambda: ix.loc_to_iloc(p))
            if o[0] == 'ok':
                chk(not is_intlike(o[1]), KP(f'absent-label-resolves:{pc}'), f'loc_to_iloc({p!r}) returned position {o[1]!r} but the held labels are {model!r}', rp)


# ---------------------------------------------------------------------------------------------
# label tables (JSON-addressable: family name + list number)

NAN = float('nan')
_FAM = None


def families():
    global _FAM
    if _FAM is None:
        _FAM = {
            'int': dict(lists=[[3, 1, 2], [0, 1, 2], [5], [-1, 0, 7, 2], []], fresh=[40, 41, 42, 43, 44, 45, 46, 47, 48], other=['zz', 2.5, None],
                        dups=[[1, 2, 1], [0, 0]], dtype=np.int64, sortable=True),
            'str': dict(lists=[['a', 'b', 'c'], ['bb', '', 'a'], ['x'], []], fresh=['p', 'q', 'r', 's', 't', 'u', 'v', 'w', 'y'], other=[7, None, 1.5],
                        dups=[['a', 'a'], ['a', 'b', 'a']], dtype=str, sortable=True),
            'bool': dict(lists=[[True, False], [False]], fresh=[True], other=['zz', 5, None], dups=[[True, True], [False, True, False]], dtype=bool, sortable=True),
            'float': dict(lists=[[1.5, -2.0, 0.25], [0.0, 1.0, 2.0], [1.0, NAN, 2.5]], fresh=[10.5, 11.5, 12.5, 13.5, 14.5, 15.5, 16.5, 17.5, 18.5], other=['zz', None, (1,)],
                          dups=[[1.5, 1.5], [0.5, 2.0, 0.5]], dtype=np.float64, sortable=True),
            'tuple': dict(lists=[[('a', 1), ('b', 2), ('a', 2)], [(1, 2), (1, 3), (2,)]], fresh=[('z', 9), ('z', 8), ('y', 7), ('y', 6), ('w', 5), ('w', 4), ('v', 3), ('v', 2), ('u', 1)],
                          other=['zz', 3, None], dups=[[('a', 1), ('a', 1)], [('a', 1), ('b', 1), ('a', 1)]], dtype='tuple', sortable=False),
            'date': dict(lists=[[D(2020, 1, 1), D(2019, 12, 31), D(2020, 2, 29)], [D(2021, 5, 5)]], fresh=[D(2030, 1, i) for i in range(1, 10)], other=['zz', 3, None],
                         dups=[[D(2020, 1, 1), D(2020, 1, 1)]], dtype=object, sortable=True),
            'dt64D': dict(lists=[[dt('2020-01-01', 'D'), dt('2019-12-31', 'D'), dt('2020-02-29', 'D')]], fresh=[dt(f'2030-01-0{i}', 'D') for i in range(1, 10)], other=['zz', 3, None],
                          dups=[[dt('2020-01-01', 'D'), dt('2020-01-01', 'D')]], dtype='datetime64[D]', sortable=True),
            'dt64s': dict(lists=[[dt('2020-01-01T00:00:01', 's'), dt('2020-01-01T00:00:00', 's'), dt('2019-06-01T12:00:00', 's')]],
                          fresh=[dt(f'2030-01-01T00:00:0{i}', 's') for i in range(1, 10)], other=['zz', 3, None],
                          dups=[[dt('2020-01-01T00:00:01', 's')] * 2], dtype='datetime64[s]', sortable=True),
            'dt64Y': dict(lists=[[dt('2020', 'Y'), dt('2018', 'Y'), dt('2019', 'Y')]], fresh=[dt(f'203{i}', 'Y') for i in range(1, 10)], other=['zz', None, 1.5],
                          dups=[[dt('2020', 'Y'), dt('2020', 'Y')]], dtype='datetime64[Y]', sortable=True),
            'dt64M': dict(lists=[[dt('2020-03', 'M'), dt('2020-01', 'M')]], fresh=[dt(f'2030-0{i}', 'M') for i in range(1, 10)], other=['zz', None, 1.5],
                          dups=[[dt('2020-03', 'M'), dt('2020-01', 'M'), dt('2020-03', 'M')]], dtype='datetime64[M]', sortable=True),
            'dt64ns': dict(lists=[[dt('2020-01-01T00:00:00.000000002', 'ns'), dt('2020-01-01T00:00:00.000000001', 'ns')]],
                           fresh=[dt(f'2030-01-01T00:00:00.00000000{i}', 'ns') for i in range(1, 10)], other=['zz', None, 1.5],
                           dups=[[dt('2020-01-01T00:00:00.000000001', 'ns')] * 2], dtype='datetime64[ns]', sortable=True),
            'mixed': dict(lists=[[1, 'a', None, (1, 2), 2.5], ['x', 3, False], [D(2020, 1, 1), 'a', 1]], fresh=['zz', 77, ('q',), 8.5, 'yy', 78, ('r', 1), 9.5, 'ww'], other=[None, -3, 'k'],
                          dups=[[1, 'a', 1], ['a', None, None]], dtype=object, sortable=False),
        }
    return _FAM


def as_array(labels, dtype):
    if dtype == 'tuple' or dtype is object:
        a = np.empty(len(labels), dtype=object)
        for i, l in enumerate(labels):
            a[i] = l
        return a
    return np.array(labels, dtype=dtype)


FORMS = ('list', 'tuple', 'gen', 'array', 'keys', 'array-ro')


def in_form(labels, form, dtype):
    if form == 'list':
        return list(labels)
    if form == 'tuple':
        return tuple(labels)
    if form == 'gen':
        return (x for x in labels)
    if form == 'keys':
        return dict.fromkeys(labels).keys()
    a = as_array(labels, dtype)
    if form == 'array-ro':
        a.flags.writeable = False
    return a


# typed datetime classes: name -> (unit, [input lists]) ; model = labels converted to the unit
def typed_inputs():
    return {
        'IndexDate': ('D', [[D(2020, 1, 1), D(2019, 12, 31), D(2020, 2, 29)], [dt('2020-01-01', 'D'), dt('2019-12-31', 'D')], ['2020-01-03', '2020-01-01'],
                            [D(2020, 1, 1), '2020-01-02', dt('2020-01-03', 'D')], [],
                            [D(2020, 1, 1), D(2020, 1, 1)], ['2020-01-03', dt('2020-01-03', 'D')]]),
        'IndexYear': ('Y', [[2020, 2018], ['2021', '2019', '2020'], [dt('2020', 'Y'), dt('2018', 'Y')], [dt('2020-01-01', 'D'), dt('2021-05-01', 'D')], [D(2020, 3, 3)],
                            [dt('2020-01-01', 'D'), dt('2020-05-01', 'D')], ['2020', dt('2020', 'Y')]]),
        'IndexYearMonth': ('M', [['2020-03', '2020-01'], [dt('2020-03', 'M'), dt('2020-01', 'M')], [dt('2020-01-01', 'D'), dt('2020-02-01', 'D')], [dt('2020-01-01', 'D'), dt('2020-01-20', 'D')]]),
        'IndexHour': ('h', [[dt('2020-01-01T05', 'h'), dt('2020-01-01T03', 'h')], [dt('2020-01-01T05', 'h')] * 2]),
        'IndexMinute': ('m', [[dt('2020-01-01T05:01', 'm'), dt('2020-01-01T05:00', 'm')]]),
        'IndexSecond': ('s', [[dt('2020-01-01T00:00:01', 's'), dt('2020-01-01T00:00:00', 's')], [DT(2020, 1, 1, 0, 0, 1), DT(2019, 1, 1)], ['2020-01-01T00:00:05', '2020-01-01T00:00:03'],
                              [DT(2020, 1, 1, 0, 0, 1), dt('2020-01-01T00:00:01', 's')]]),
        'IndexMillisecond': ('ms', [[dt('2020-01-01T00:00:00.002', 'ms'), dt('2020-01-01T00:00:00.001', 'ms')]]),
        'IndexMicrosecond': ('us', [[dt('2020-01-01T00:00:00.000002', 'us'), dt('2020-01-01T00:00:00.000001', 'us')]]),
        'IndexNanosecond': ('ns', [[dt('2020-01-01T00:00:00.000000002', 'ns'), dt('2020-01-01T00:00:00.000000001', 'ns')], [dt('2020-01-01T00:00:00.000000001', 'ns')] * 2]),
    }


def to_unit(x, unit):
    if isinstance(x, (int, np.integer)) and not isinstance(x, bool):
        return np.datetime64(str(x), unit)
    if isinstance(x, np.datetime64):
        return x.astype(f'datetime64[{unit}]')
    return np.datetime64(x, unit)


def typed_fresh(unit):
    base = {'Y': ['2031', '2032', '2033', '2034', '2035', '2036', '2037', '2038', '2039'],
            'M': [f'2030-0{i}' for i in range(1, 10)], 'D': [f'2030-01-0{i}' for i in range(1, 10)], 'h': [f'2030-01-01T0{i}' for i in range(1, 10)],
            'm': [f'2030-01-01T00:0{i}' for i in range(1, 10)], 's': [f'2030-01-01T00:00:0{i}' for i in range(1, 10)],
            'ms': [f'2030-01-01T00:00:00.00{i}' for i in range(1, 10)], 'us': [f'2030-01-01T00:00:00.00000{i}' for i in range(1, 10)],
            'ns': [f'2030-01-01T00:00:00.00000000{i}' for i in range(1, 10)]}[unit]
    return [np.datetime64(s, unit) for s in base]


# ---------------------------------------------------------------------------------------------
# evaluating one route

GROUPS = (('ctor', 'ctor'), ('from_', 'ctor'), ('rename', 'copy'), ('copy', 'copy'), ('deepcopy', 'copy'), ('iloc', 'select'), ('loc', 'select'),
          ('getitem', 'select'), ('drop', 'drop'), ('relabel', 'relabel'), ('roll', 'roll'), ('sort', 'sort'), ('union', 'setop'), ('intersection', 'setop'),
          ('difference', 'setop'), ('level', 'level'), ('flat', 'level'), ('astype', 'astype'), ('series', 'container'), ('frame', 'container'),
          ('rehierarch', 'rehierarch'), ('hist', 'history'))


def group_of(route):
    for prefix, g in GROUPS:
        if route.startswith(prefix):
            return g
    return 'other'


# routes whose known failure is one root cause surfacing through several views: all checks share one key
ROUTE_ONEKEY = {'level_drop-inner': f'{PID}:ih:level_drop-inner:offsets-not-recomputed', 'level_drop-outer': f'{PID}:ih:level_drop-outer:offsets-not-recomputed'}


def result_rows(ix):
    import static_frame as sf
    v = ix.values
    if isinstance(ix, sf.IndexHierarchy):
        return [tuple(r) for r in v] if len(v) else []
    return list(v)


def eval_route(rep, base_kind, route, thunk, expect, rp, may_raise=False, only=None, group=None, empty=False, onekey=None, onekey_probes=None):
    """expect: ('model', L) | ('set', L) | ('self',) | ('reject', 'duplicates'|'non-tree')"""
    import static_frame as sf
    if only is not None and route != only:
        return
    rp = dict(rp, route=route)
    group = group or group_of(route)
    onekey = onekey or ROUTE_ONEKEY.get(route) or (f'{PID}:ih:tuple-labels-flattened-by-iloc' if group == 'level/tuple-labels' else None)
    o = obs(thunk)
    nontrivial = expect[0] == 'reject' or (len(expect) > 1 and len(expect[1]) > 0)
    rep.count(distinct_key=(tuple(sorted((k, str(v)) for k, v in rp.items())) if nontrivial else None),
              sample=dict(rp, expect=expect[0]))
    if o[0] == 'exc':
        e = o[1]
        if expect[0] == 'reject':
            rep.check(is_init_error(e), f'{PID}:{base_kind}:{route}:rejected-with-{type(e).__name__}',
                      f'{expect[1]} rejected, but with {e!r} instead of an index-initialisation error', rp)
        elif not may_raise:
            rep.fail(f'{PID}:{"any" if empty else base_kind}:{group}:raises-{type(e).__name__}' + (':empty-index' if empty else ''), f'route {route} raises {e!r} on valid labels; expected {expect!r}', rp)
        return
    res = o[1]
    if not isinstance(res, (sf.Index, sf.IndexHierarchy)):
        rep.fail(f'{PID}:{base_kind}:{route}:not-an-index', f'route {route} returned {type(res).__name__}', rp)
        return
    if expect[0] == 'reject':
        shown = obs(lambda: result_rows(res))
        rep.fail(onekey or f'{PID}:{base_kind}:{route}:{expect[1]}-accepted', f'route {route} produced an index {shown[1]!r} from {expect[1]} labels instead of raising', rp)
        return
    if expect[0] == 'model':
        model = list(expect[1])
    else:
        got = obs(lambda: result_rows(res))
        if got[0] == 'exc':
            rep.fail(f'{PID}:{kind_of(res)}:values-order-raises:{type(got[1]).__name__}', f'values raises {got[1]!r} after {route}', rp)
            return
        model = got[1]
        if expect[0] == 'set':
            rep.check({norm(x) for x in model} == {norm(x) for x in expect[1]} and len(model) == len({norm(x) for x in expect[1]}),
                      f'{PID}:{base_kind}:{route}:label-set', f'route {route} holds {model!r}, expected the label set {expect[1]!r}', rp)
    contract(rep, res, model, rp, group=group, onekey=onekey, onekey_probes=onekey_probes)


def expect_of(labels, hier=False):
    """the property's verdict for a label sequence: an index presenting it, or rejection"""
    labels = list(labels)
    if hier:
        if not all_distinct(labels):
            return ('reject', 'duplicates')
        return ('model', labels) if is_tree_order(labels) else ('reject', 'non-tree')
    return ('model', labels) if all_distinct(labels) else ('reject', 'duplicates')


def sorted_model(model, reverse=False):
    return sorted(model, reverse=reverse)


def astype_expect(model, dtype, src_dtype=None):
    try:
        src = np.array(model) if src_dtype is None else as_array(model, src_dtype)
        with warnings.catch_warnings():
            warnings.simplefilter('ignore')
            out = list(src.astype(dtype))
    except Exception:
        return None
    return expect_of(out)


ASTYPE = {
    'int': [float, str, object, bool],
    'str': [object],
    'bool': [int, object],
    'float': [int, object],
    'tuple': [object],
    'date': ['datetime64[D]', 'datetime64[Y]'],
    'dt64D': ['datetime64[Y]', 'datetime64[s]', object, 'datetime64[M]'],
    'dt64s': ['datetime64[D]', 'datetime64[ns]'],
    'dt64Y': ['datetime64[D]'],
    'dt64M': ['datetime64[D]', 'datetime64[Y]'],
    'dt64ns': ['datetime64[s]', 'datetime64[us]'],
    'mixed': [object],
    'typed': ['datetime64[Y]', 'datetime64[s]', object, 'datetime64[D]'],
}


def flat_routes(ix, model, fresh, other, sortable, fam, cls, src_dtype=None):
    """derivation routes from a 1-D index `ix` whose labels are `model`"""
    import static_frame as sf
    n = len(model)
    nan = any(has_nan(m) for m in model)
    GO = not ix.STATIC
    twin = {True: sf.Index, False: sf.IndexGO}[GO] if kind_of(ix) in ('plain', 'auto') else None
    R = []

    tuple_labels = any(isinstance(m, tuple) for m in model)

    def add(route, thunk, expect, may_raise=False, group=None):
        if group is None and tuple_labels and route.startswith('level'):
            group = 'level/tuple-labels'  # tuples as labels inside a hierarchy: keyed apart
        R.append((route, thunk, expect, may_raise, group))

    add('ctor-from-index', lambda: cls(ix), ('model', model))
    if twin is not None:
        add('ctor-twin-class', lambda: twin(ix), ('model', model))
        add('ctor-twin-back', lambda: cls(twin(ix)), ('model', model))
    add('from_labels-values', lambda: cls.from_labels(ix.values), ('model', model))
    add('ctor-iter', lambda: cls(iter(ix)), ('model', model))
    add('rename', lambda: ix.rename('nm'), ('model', model))
    add('copy', lambda: ix.copy(), ('model', model))
    add('deepcopy', lambda: copy.deepcopy(ix), ('model', model))
    # selection
    add('iloc-rev-list', lambda: ix.iloc[list(range(n))[::-1]], ('model', model[::-1]))
    add('iloc-rev-slice', lambda: ix.iloc[::-1], ('model', model[::-1]))
    add('iloc-tail', lambda: ix.iloc[1:], ('model', model[1:]))
    add('iloc-step2', lambda: ix.iloc[::2], ('model', model[::2]))
    add('iloc-bool', lambda: ix.iloc[np.arange(n) % 2 == 1], ('model', model[1::2]))
    add('iloc-array', lambda: ix.iloc[np.arange(n)[::-1]], ('model', model[::-1]))
    if n:
        add('iloc-list-repeat', lambda: ix.iloc[[0, n - 1, 0]], ('reject', 'duplicates'))
        add('getitem-neg', lambda: ix[[-1]], ('model', model[-1:]))
    if n and not nan and model[n // 2] is not None:
        add('loc-slice-from', lambda: ix.loc[model[n // 2]:], ('model', model[n // 2:]))
        add('loc-slice-to', lambda: ix.loc[:model[n // 2]], ('model', model[:n // 2 + 1]))
    if n and not nan:
        add('loc-list', lambda: ix.loc[[model[-1], model[0]]] if n > 1 else ix.loc[[model[0]]], ('model', [model[-1], model[0]] if n > 1 else [model[0]]))
        add('loc-bool', lambda: ix.loc[np.arange(n) % 2 == 0], ('model', model[::2]))
        add('drop-loc-label', lambda: ix.drop.loc[model[0]], ('model', model[1:]))
        add('drop-loc-list', lambda: ix.drop.loc[[model[-1], model[0]]] if n > 1 else ix.drop.loc[[model[0]]], ('model', model[1:-1]))
    add('drop-iloc-0', lambda: ix.drop.iloc[0], ('model', model[1:]), may_raise=(n == 0))
    add('drop-iloc-list', lambda: ix.drop.iloc[[0, n - 1]], ('model', model[1:-1]), may_raise=(n == 0))
    add('drop-iloc-slice', lambda: ix.drop.iloc[1:], ('model', model[:1]))
    add('drop-iloc-bool', lambda: ix.drop.iloc[np.arange(n) % 2 == 0], ('model', model[1::2]))
    # relabel
    add('relabel-identity', lambda: ix.relabel(lambda x: x), ('model', model))
    if n:
        add('relabel-dict-fresh', lambda: ix.relabel({model[0]: fresh[0]}) if not nan else ix.relabel({}), ('model', ([fresh[0]] + model[1:]) if not nan else model))
        add('relabel-dict-swap', lambda: ix.relabel({model[0]: model[-1], model[-1]: model[0]}) if not nan else ix.relabel({}),
            ('model', ([model[-1]] + model[1:-1] + [model[0]] if n > 1 else model) if not nan else model))
    if n > 1 and not nan:
        add('relabel-dict-collide', lambda: ix.relabel({model[0]: model[1]}), ('reject', 'duplicates'))
        add('relabel-fn-constant', lambda: ix.relabel(lambda x: fresh[0]), ('reject', 'duplicates'))
    # roll
    for rname, k in (('roll1', 1), ('roll-1', -1), ('roll2', 2), ('roll-len', n), ('roll-len+1', n + 1), ('roll0', 0)):
        kk = (k % n) if n else 0
        add(rname, (lambda k=k: ix.roll(k)), ('model', (model[-kk:] + model[:-kk]) if kk else model))
    # sort
    if sortable and not nan:
        add('sort-asc', lambda: ix.sort(), ('model', sorted_model(model)))
        add('sort-desc', lambda: ix.sort(ascending=False), ('model', sorted_model(model, True)))
    else:
        add('sort-asc', lambda: ix.sort(), ('set', model) if not nan else ('self',), may_raise=True)
    # set operations
    oth = model[1:] + [fresh[0]]
    mk = {norm(x) for x in model}
    ok = {norm(x) for x in oth}
    uni = model + [fresh[0]]
    inter = model[1:]
    diff = model[:1]
    mr = (not sortable) or nan
    for oname, operand in (('index', lambda: cls(oth)), ('list', lambda: list(oth))):
        add(f'union-{oname}', (lambda operand=operand: ix.union(operand())), ('set', uni) if not nan else ('self',), may_raise=mr)
        add(f'intersection-{oname}', (lambda operand=operand: ix.intersection(operand())), ('set', inter) if not nan else ('self',), may_raise=mr)
        add(f'difference-{oname}', (lambda operand=operand: ix.difference(operand())), ('set', diff) if not nan else ('self',), may_raise=mr)
    add('union-self', lambda: ix.union(cls(model)), ('set', model) if not nan else ('self',), may_raise=mr)
    add('intersection-self', lambda: ix.intersection(cls(model)), ('set', model) if not nan else ('self',), may_raise=mr)
    add('difference-self', lambda: ix.difference(cls(model)), ('set', []), may_raise=mr)
    add('union-reversed', lambda: ix.union(cls(model[::-1])), ('set', model) if not nan else ('self',), may_raise=mr)
    # hierarchy routes
    add('level_add', lambda: ix.level_add('x'), ('model', [('x', m) for m in model]), may_raise=(n == 0))
    add('level_add-level_drop', lambda: ix.level_add('x').level_drop(1), ('model', model), may_raise=(n == 0))
    add('level_add-flat', lambda: ix.level_add(7).flat(), ('model', [(7, m) for m in model]), may_raise=(n == 0))
    # astype
    for dtp in ASTYPE['typed' if kind_of(ix) == 'dt' else fam]:
        ex = astype_expect(model, dtp, src_dtype) if not nan else None
        if ex is not None:
            add(f'astype-{np.dtype(dtp).str if not isinstance(dtp, type) else dtp.__name__}', (lambda dtp=dtp: ix.astype(dtp)), ex)
    # through containers
    add('series-index', lambda: sf.Series(np.arange(n), index=ix).index, ('model', model))
    add('series-iloc-rev-index', lambda: sf.Series(np.arange(n), index=ix).iloc[::-1].index, ('model', model[::-1]))
    add('series-roll-index', lambda: sf.Series(np.arange(n), index=ix).roll(1, include_index=True).index, ('model', model[-1:] + model[:-1]), may_raise=(n == 0))
    add('frame-columns', lambda: (sf.FrameGO if GO else sf.Frame)(np.arange(n).reshape(1, n), columns=ix).columns, ('model', model))
    if n:
        add('frame-T-index', lambda: sf.Frame(np.arange(n).reshape(1, n), columns=ix).T.index, ('model', model))
    add('frame-iloc-cols', lambda: sf.Frame(np.arange(n).reshape(1, n), columns=ix).iloc[:, ::-1].columns, ('model', model[::-1]))
    if n and not nan:
        add('series-loc-list-index', lambda: sf.Series(np.arange(n), index=ix).loc[[model[-1], model[0]][:max(1, min(2, n))]].index, ('model', [model[-1], model[0]][:max(1, min(2, n))] if n > 1 else [model[0]]))
        add('series-drop-loc-index', lambda: sf.Series(np.arange(n), index=ix).drop.loc[model[0]].index, ('model', model[1:]))
        add('series-relabel-dict-index', lambda: sf.Series(np.arange(n), index=ix).relabel({model[0]: fresh[1]}).index, ('model', [fresh[1]] + model[1:]))
        if not any(isinstance(m, bool) for m in model):
            add('series-reindex-index', lambda: sf.Series(np.arange(n), index=ix).reindex(model[::-1] + [fresh[0]]).index, ('model', model[::-1] + [fresh[0]]))
        add('frame-drop-col', lambda: sf.Frame(np.arange(n).reshape(1, n), columns=ix).drop[model[0]].columns, ('model', model[1:]))
        if n > 1:
            add('series-relabel-collide', lambda: sf.Series(np.arange(n), index=ix).relabel({model[0]: model[1]}).index, ('reject', 'duplicates'))
            if not any(isinstance(m, bool) for m in model):
                add('series-reindex-repeat', lambda: sf.Series(np.arange(n), index=ix).reindex([model[0], model[1], model[0]]).index, ('reject', 'duplicates'))
    if sortable and not nan:
        add('series-sort_index', lambda: sf.Series(np.arange(n), index=ix).sort_index().index, ('model', sorted_model(model)))
    return R


# ---------------------------------------------------------------------------------------------
# case families: flat constructors + derivations, duplicate rejection, typed datetime, auto-integer

def cls_by_name(name):
    import static_frame as sf
    return getattr(sf, name)


def flat_cases(tier):
    fams = families()
    for fam, info in fams.items():
        for li in range(len(info['lists'])):
            for cls in ('Index', 'IndexGO'):
                for form in FORMS:
                    yield dict(area='flat', fam=fam, li=li, cls=cls, form=form)
        for di in range(len(info['dups'])):
            for cls in ('Index', 'IndexGO'):
                for form in tuple(f for f in FORMS if f != 'keys') + ('from_labels', 'series-index-arg', 'frame-columns-arg', 'frame-index-arg', 'series-from_items', 'index-of-index', 'ctor-name'):
                    yield dict(area='dup', fam=fam, li=di, cls=cls, form=form)
    for name, (unit, lists) in typed_inputs().items():
        for li in range(len(lists)):
            for go in ('', 'GO'):
                for form in ('list', 'gen', 'array'):
                    yield dict(area='typed', cls=name + go, li=li, form=form)
    for src in AUTO_SOURCES:
        for n in range(0, 5):
            yield dict(area='auto', src=src, n=n)
    for spec in range(len(CTOR_DTYPE)):
        for cls in ('Index', 'IndexGO'):
            yield dict(area='ctor-dtype', li=spec, cls=cls)
    for spec in range(len(SPECIAL_LISTS)):
        for cls in ('Index', 'IndexGO'):
            yield dict(area='special', li=spec, cls=cls)


SPECIAL_LISTS = [
    # a datetime64 label inside an object-dtype index: LocMap casts all labels to the key's dtype
    ([dt('2020-01-01', 'D'), 'a', 1], 'datetime64-label-in-object-index'),
    ([dt('2020-01-01', 'D'), dt('2020-01', 'M')], 'datetime64-labels-of-two-units'),
]

CTOR_DTYPE = [([3, 1, 2], 'float64'), ([3, 1], 'str'), ([1.5, 2.7], 'int64'), ([1.5, 1.2], 'int64'), ([1, 2], 'object'), (['2020-01-01', '2020-02-01'], 'datetime64[D]'),
              (['2020-01-01', '2020-01-02'], 'datetime64[M]'), ([True, False], 'int64'), ([0, 1, 2], 'bool')]

AUTO_SOURCES = ('series', 'series-go-none', 'frame-index', 'frame-columns', 'framego-columns', 'factory-static', 'factory-go', 'ctor-loc_is_iloc', 'ctor-go-loc_is_iloc',
                'series-relabel-auto', 'frame-relabel-auto', 'series-from_concat-auto', 'frame-from_concat-auto')


def auto_index(src, n):
    import static_frame as sf
    from static_frame.core.index_auto import IndexAutoFactory
    if src == 'series':
        return sf.Series(np.arange(n) * 10).index
    if src == 'series-go-none':
        return sf.Series(list('abcdefg'[:n]), index=None).index
    if src == 'frame-index':
        return sf.Frame(np.arange(n * 2).reshape(n, 2)).index
    if src == 'frame-columns':
        return sf.Frame(np.arange(n * 2).reshape(2, n)).columns
    if src == 'framego-columns':
        return sf.FrameGO(np.arange(n * 2).reshape(2, n)).columns
    if src == 'factory-static':
        return IndexAutoFactory.from_optional_constructor(n, default_constructor=sf.Index)
    if src == 'factory-go':
        return IndexAutoFactory.from_optional_constructor(n, default_constructor=sf.IndexGO)
    if src == 'ctor-loc_is_iloc':
        return sf.Index(range(n), loc_is_iloc=True)
    if src == 'ctor-go-loc_is_iloc':
        return sf.IndexGO(np.arange(n), loc_is_iloc=True)
    if src == 'series-relabel-auto':
        return sf.Series(np.arange(n), index=list('abcdefg'[:n])).relabel(sf.IndexAutoFactory).index
    if src == 'frame-relabel-auto':
        return sf.Frame(np.arange(n * 2).reshape(2, n), columns=list('abcdefg'[:n])).relabel(columns=sf.IndexAutoFactory).columns
    if src == 'series-from_concat-auto':
        return sf.Series.from_concat([sf.Series(np.arange(n), index=list('abcdefg'[:n])), sf.Series((), index=())], index=sf.IndexAutoFactory).index
    if src == 'frame-from_concat-auto':
        k = n // 2
        return sf.Frame.from_concat([sf.Frame(np.arange(k * 2).reshape(k, 2)), sf.Frame(np.arange((n - k) * 2).reshape(n - k, 2))], index=sf.IndexAutoFactory).index
    raise KeyError(src)


def build_dup(cls, labels, form, dtype):
    import static_frame as sf
    n = len(labels)
    if form in FORMS:
        return cls(in_form(labels, form, dtype))
    if form == 'from_labels':
        return cls.from_labels(list(labels))
    if form == 'ctor-name':
        return cls(list(labels), name='nm')
    if form == 'index-of-index':  # labels reach the constructor through a Series (values are taken as labels)
        return cls(sf.Series(as_array(labels, dtype)))
    ic = cls
    if form == 'series-index-arg':
        return sf.Series(np.arange(n), index=list(labels), index_constructor=ic).index
    if form == 'frame-columns-arg':
        return (sf.Frame if cls.STATIC else sf.FrameGO)(np.arange(n).reshape(1, n), columns=list(labels)).columns
    if form == 'frame-index-arg':
        return sf.Frame(np.arange(n).reshape(n, 1), index=list(labels)).index
    if form == 'series-from_items':
        return sf.Series.from_items(((l, i) for i, l in enumerate(labels)), index_constructor=ic).index
    raise KeyError(form)


def eval_flat_case(rep, case, only=None):
    import static_frame as sf
    area = case['area']
    rp = dict(case)
    if area in ('flat', 'dup'):
        info = families()[case['fam']]
        cls = cls_by_name(case['cls'])
        labels = info['lists' if area == 'flat' else 'dups'][case['li']]
        form = case['form']
        if form in ('array', 'array-ro') and info['dtype'] is None:
            return
        kind0 = 'plain'
        if area == 'dup':
            eval_route(rep, kind0, f'ctor-{form}', lambda: build_dup(cls, labels, form, info['dtype']), ('reject', 'duplicates'), rp, only=only)
            return
        eval_route(rep, kind0, f'ctor-{form}', lambda: cls(in_form(labels, form, info['dtype'])), ('model', labels), rp, only=only)
        if form == 'list':
            eval_route(rep, kind0, 'from_labels', lambda: cls.from_labels(list(labels)), ('model', labels), rp, only=only)
            eval_route(rep, kind0, 'ctor-name', lambda: cls(list(labels), name=('n', 1)), ('model', labels), rp, only=only)
            eval_route(rep, kind0, 'ctor-series-values', lambda: cls(sf.Series(as_array(labels, info['dtype']))), ('model', labels), rp, only=only)
        if form not in ('list', 'array') or (form == 'array' and not cls.STATIC):
            return
        o = obs(lambda: cls(in_form(labels, form, info['dtype'])))
        if o[0] == 'exc':
            return  # reported above
        fresh = [f for f in info['fresh'] if not any(py_equal(f, l) for l in labels)] + [x for x in info['other'] if x is not None]
        for route, thunk, expect, may_raise, group in flat_routes(o[1], list(labels), fresh, info['other'], info['sortable'], case['fam'], cls, src_dtype=info['dtype']):
            eval_route(rep, kind0, route, thunk, expect, rp, may_raise, only=only, group=group, empty=not labels)
    elif area == 'typed':
        name = case['cls']
        base = name[:-2] if name.endswith('GO') else name
        unit, lists = typed_inputs()[base]
        raw = lists[case['li']]
        cls = cls_by_name(name)
        kind0 = 'dt'
        model = [to_unit(x, unit) for x in raw]
        form = case['form']
        if form == 'array':
            if not all(isinstance(x, np.datetime64) for x in raw) or len({x.dtype for x in raw}) > 1:
                return
            build = lambda: cls(np.array(raw))  # noqa: E731
        elif form == 'gen':
            build = lambda: cls(x for x in raw)  # noqa: E731
        else:
            build = lambda: cls(list(raw))  # noqa: E731
        if form != 'array' and any(isinstance(x, np.datetime64) and x.dtype != np.dtype(f'datetime64[{unit}]') for x in raw):
            return  # element-wise coarsening is refused by to_datetime64 (RuntimeError); only the array path casts
        ex = expect_of(model)
        eval_route(rep, kind0, f'ctor-{form}', build, ex, rp, only=only)
        if form == 'list' and all(isinstance(x, str) for x in raw) and raw:
            eval_route(rep, 'plain', 'astype-str-index-to-datetime', lambda: (sf.Index if cls.STATIC else sf.IndexGO)(list(raw)).astype(f'datetime64[{unit}]'), ex, rp, only=only)
        if ex[0] != 'model' or form == 'gen':
            return
        o = obs(build)
        if o[0] == 'exc':
            return
        fresh = typed_fresh(unit)
        for route, thunk, expect, may_raise, group in flat_routes(o[1], model, fresh, ['zz', None, 1.5], True, 'typed', cls):
            eval_route(rep, kind0, route, thunk, expect, rp, may_raise, only=only, group=group, empty=not model)
    elif area == 'auto':
        n = case['n']
        model = list(range(n))
        o = obs(lambda: auto_index(case['src'], n))
        kind0 = 'auto'
        eval_route(rep, kind0, 'ctor-' + case['src'], lambda: auto_index(case['src'], n), ('model', model), rp, only=only)
        if o[0] == 'exc':
            return
        ix = o[1]
        kind0 = kind_of(ix)
        for route, thunk, expect, may_raise, group in flat_routes(ix, model, [40, 41, 42], ['zz', None, 2.5], True, 'int', type(ix), src_dtype=np.int64):
            eval_route(rep, kind0, route, thunk, expect, rp, may_raise, only=only, group=group, empty=not model)
    elif area == 'special':
        labels, tag = SPECIAL_LISTS[case['li']]
        cls = cls_by_name(case['cls'])
        eval_route(rep, 'plain', 'ctor-list', lambda: cls(list(labels)), expect_of(labels), rp, only=only, onekey=f'{PID}:plain:{tag}', onekey_probes=f'{PID}:plain:{tag}')
    elif area == 'ctor-dtype':
        labels, dtp = CTOR_DTYPE[case['li']]
        cls = cls_by_name(case['cls'])
        kind0 = 'plain'
        with warnings.catch_warnings():
            warnings.simplefilter('ignore')
            conv = list(np.array(labels).astype(dtp))
        eval_route(rep, kind0, 'ctor-dtype-arg', lambda: cls(list(labels), dtype=np.dtype(dtp)), expect_of(conv), rp, only=only,
                   onekey=f'{PID}:plain:ctor-dtype-arg:map-keyed-by-uncast-labels', onekey_probes=f'{PID}:plain:ctor-dtype-arg:map-keyed-by-uncast-labels')


# ---------------------------------------------------------------------------------------------
# hierarchies

D1, D2, D3 = D(2020, 1, 1), D(2020, 1, 2), D(2019, 12, 31)
IH_TREES = {
    't2a': dict(rows=[('a', 1), ('a', 2), ('b', 1)], ctors=None, fresh=[('b', 7), ('c', 1), ('c', 2), ('d', 1)], sortable=True, simple=True),
    't2b': dict(rows=[('b', 2), ('a', 1), ('a', 3), ('c', 2)], ctors=None, fresh=[('c', 9), ('d', 2), ('d', 3), ('e', 1)], sortable=True, simple=True),
    't2i': dict(rows=[(0, 0), (0, 1), (1, 0)], ctors=None, fresh=[(1, 5), (2, 0), (2, 1), (3, 0)], sortable=True, simple=True),
    't2one': dict(rows=[('a', 1)], ctors=None, fresh=[('a', 2), ('b', 1), ('b', 2), ('c', 1)], sortable=True, simple=True),
    't2p': dict(rows=[('a', 1), ('a', 2), ('b', 1), ('b', 2)], ctors=None, fresh=[('b', 3), ('c', 1), ('c', 2), ('d', 1)], sortable=True, simple=True),
    't3a': dict(rows=[('a', 1, 'x'), ('a', 1, 'y'), ('a', 2, 'x'), ('b', 1, 'x')], ctors=None, fresh=[('b', 1, 'z'), ('b', 2, 'x'), ('c', 1, 'x'), ('c', 1, 'y')], sortable=True, simple=True),
    't3b': dict(rows=[(1, 'p', 10), (2, 'q', 20)], ctors=None, fresh=[(2, 'q', 30), (2, 'r', 10), (3, 'p', 10), (3, 'p', 20)], sortable=True, simple=True),
    't4a': dict(rows=[('a', 1, 'x', 0), ('a', 1, 'x', 1), ('a', 2, 'y', 0), ('b', 1, 'x', 0)], ctors=None, fresh=[('b', 1, 'x', 5), ('b', 1, 'y', 0), ('b', 2, 'x', 0), ('c', 1, 'x', 0)], sortable=True, simple=True),
    't2d': dict(rows=[(D1, 'a'), (D1, 'b'), (D3, 'a')], ctors=('IndexDate', 'Index'), fresh=[(D3, 'c'), (D2, 'a'), (D2, 'b'), (D(2021, 1, 1), 'a')], sortable=True, simple=False),
    't2dd': dict(rows=[('a', D1), ('a', D3), ('b', D1)], ctors=('Index', 'IndexDate'), fresh=[('b', D2), ('c', D1), ('c', D2), ('d', D1)], sortable=True, simple=False),
    't2m': dict(rows=[('a', None), ('a', 1), (2, 'x')], ctors=None, fresh=[(2, 'y'), (3, None), (3, 1), ('z', 'z')], sortable=False, simple=False),
    't2e': dict(rows=[], ctors=None, fresh=[('a', 1), ('a', 2), ('b', 1), ('b', 2)], sortable=True, simple=True),
}

IH_BAD = {
    'interleave2': [('a', 1), ('b', 1), ('a', 2)],
    'dup-adjacent2': [('a', 1), ('a', 1)],
    'dup-apart2': [('a', 1), ('a', 2), ('a', 1)],
    'dup-other-parent2': [('a', 1), ('b', 1), ('a', 1)],
    'interleave3-outer': [('a', 1, 'x'), ('b', 1, 'x'), ('a', 2, 'x')],
    'interleave3-mid': [('a', 1, 'x'), ('a', 2, 'x'), ('a', 1, 'y')],
    'dup3': [('a', 1, 'x'), ('a', 1, 'x')],
    'interleave-int': [(0, 0), (1, 0), (0, 1)],
    'interleave-date': [(D1, 'a'), (D2, 'a'), (D1, 'b')],
    'interleave4-deep': [('a', 1, 'x', 0), ('a', 1, 'y', 0), ('a', 1, 'x', 1)],
}
IH_BAD_FORMS = ('from_labels-list', 'from_labels-gen', 'from_labels-array', 'set_index_hierarchy', 'from_type_blocks', 'series-index-ctor', 'from_labels-go-list', 'from_labels-name',
                'from_records-index-ctor')


def ctor_objs(ctors, go=False):
    import static_frame as sf
    if ctors is None:
        return None
    return tuple(getattr(sf, c + ('GO' if go else '')) for c in ctors)


def rows_array(rows):
    a = np.empty((len(rows), len(rows[0]) if rows else 2), dtype=object)
    for i, r in enumerate(rows):
        for j, v in enumerate(r):
            a[i, j] = v
    return a


def tree_dict(rows):
    depth = len(rows[0])
    tree = {}
    for r in rows:
        cur = tree
        for d, v in enumerate(r):
            if d < depth - 2:
                cur = cur.setdefault(v, {})
            elif d == depth - 2:
                cur = cur.setdefault(v, [])
            else:
                cur.append(v)
    return tree


def is_product(rows):
    if not rows:
        return None
    depth = len(rows[0])
    levels = [list(dict.fromkeys(r[d] for r in rows)) for d in range(depth)]
    return levels if [tuple(p) for p in itertools.product(*levels)] == [tuple(r) for r in rows] else None


def build_ih(cls, rows, how, ctors):
    """every public construction route for a hierarchy holding `rows`"""
    import static_frame as sf
    go = not cls.STATIC
    ic = ctor_objs(ctors, go)
    kw = dict(index_constructors=ic) if ic else {}
    depth = len(rows[0]) if rows else 2
    if how == 'from_labels-list':
        return cls.from_labels(list(rows), depth_reference=depth, **kw)
    if how == 'from_labels-go-list':
        return sf.IndexHierarchyGO.from_labels(list(rows), depth_reference=depth, **kw)
    if how == 'from_labels-name':
        return cls.from_labels(list(rows), name=('n',) * depth, depth_reference=depth, **kw)
    if how == 'from_labels-gen':
        return cls.from_labels((r for r in rows), depth_reference=depth, **kw)
    if how == 'from_labels-lists':
        return cls.from_labels([list(r) for r in rows], depth_reference=depth, **kw)
    if how == 'from_labels-array':
        return cls.from_labels(rows_array(rows), depth_reference=depth, **kw)
    if how == 'from_tree':
        if ic:
            return cls(cls._LEVEL_CONSTRUCTOR.from_tree(tree_dict(rows), index_constructors=ic))
        return cls.from_tree(tree_dict(rows))
    if how == 'from_product':
        levels = is_product(rows)
        return cls.from_product(*[(ic[d](lv) if ic else lv) for d, lv in enumerate(levels)])
    if how == 'from_index_items':
        groups = {}
        for r in rows:
            groups.setdefault(r[0], []).append(r[1])
        inner = (ic[1] if ic else (sf.IndexGO if go else sf.Index))
        return cls.from_index_items(((k, inner(v)) for k, v in groups.items()), index_constructor=(ic[0] if ic else None))
    if how == 'from_labels_delimited':
        return cls.from_labels_delimited(['|'.join(repr(v) for v in r) for r in rows], delimiter='|')
    if how == 'from_labels-continuation':
        tok, last, out = '~', [object()] * depth, []
        for r in rows:
            out.append(tuple(tok if (d < depth - 1 and v == last[d] and all(r[k] == last[k] for k in range(d))) else v for d, v in enumerate(r)))
            last = list(r)
        return cls.from_labels(out, continuation_token=tok, **kw)
    if how == 'from_labels-reorder':
        shuffled = list(rows[::2]) + list(rows[1::2])
        return cls.from_labels(shuffled, reorder_for_hierarchy=True, **kw)
    if how == 'set_index_hierarchy':
        f = sf.Frame.from_records([list(r) + [0] for r in rows], columns=tuple(range(depth + 1)))
        return f.set_index_hierarchy(list(range(depth)), index_constructors=ic).index if ic else f.set_index_hierarchy(list(range(depth))).index
    if how == 'from_type_blocks':
        from static_frame.core.type_blocks import TypeBlocks
        tb = TypeBlocks.from_blocks([as_array([r[d] for r in rows], object) if len({type(r[d]) for r in rows}) > 1 or any(isinstance(r[d], (D, tuple)) for r in rows) else np.array([r[d] for r in rows])
                                     for d in range(depth)])
        return cls._from_type_blocks(tb, **kw)
    if how == 'series-index-ctor':
        mk = (lambda labels: cls.from_labels(labels, **kw))
        return sf.Series(np.arange(len(rows)), index=list(rows), index_constructor=mk).index
    if how == 'from_records-index-ctor':
        mk = (lambda labels: cls.from_labels(labels, **kw))
        return sf.Frame.from_records([[i] for i in range(len(rows))], index=list(rows), index_constructor=mk).index
    if how == 'ctor-from-ih':
        return cls(sf.IndexHierarchy.from_labels(list(rows), depth_reference=depth, **(dict(index_constructors=ctor_objs(ctors)) if ctors else {})))
    if how == 'ctor-from-ihgo':
        return cls(sf.IndexHierarchyGO.from_labels(list(rows), depth_reference=depth, **(dict(index_constructors=ctor_objs(ctors, True)) if ctors else {})))
    raise KeyError(how)


IH_HOWS = ('from_labels-list', 'from_labels-gen', 'from_labels-lists', 'from_labels-array', 'from_labels-name', 'from_tree', 'from_product', 'from_index_items', 'from_labels_delimited',
           'from_labels-continuation', 'from_labels-reorder', 'set_index_hierarchy', 'from_type_blocks', 'series-index-ctor', 'from_records-index-ctor', 'ctor-from-ih', 'ctor-from-ihgo')


def how_applies(how, rows, info):
    if not rows:
        return how in ('from_labels-list', 'from_labels-gen', 'from_labels-array', 'ctor-from-ih', 'ctor-from-ihgo')
    if how == 'from_product':
        return is_product(rows) is not None
    if how == 'from_index_items':
        return len(rows[0]) == 2
    if how == 'from_labels_delimited':
        return info['simple']
    if how == 'from_labels-continuation':
        return info['simple'] and not any('~' in r for r in rows)
    return True


def ih_cases(tier):
    for tid, info in IH_TREES.items():
        for cls in ('IndexHierarchy', 'IndexHierarchyGO'):
            for how in IH_HOWS:
                if cls.endswith('GO') and how in ('series-index-ctor', 'from_records-index-ctor'):
                    continue  # containers refuse grow-only indices on the index axis
                if how_applies(how, info['rows'], info):
                    yield dict(area='ih', tree=tid, cls=cls, how=how)
    for bid in IH_BAD:
        for cls in ('IndexHierarchy', 'IndexHierarchyGO'):
            for how in IH_BAD_FORMS:
                if cls.endswith('GO') and how in ('series-index-ctor', 'from_records-index-ctor'):
                    continue
                yield dict(area='ih-bad', bad=bid, cls=cls, how=how)
    for cls in ('IndexHierarchy', 'IndexHierarchyGO'):
        for spec in IH_BAD_SPECIAL:
            yield dict(area='ih-bad-special', spec=spec, cls=cls)


IH_BAD_SPECIAL = ('from_tree-dup-leaf', 'from_product-dup-outer', 'from_product-dup-inner', 'from_index_items-dup-outer', 'from_tree-dup-leaf-depth3', 'level_add-on-dup-array',
                  'from_labels-inconsistent-depth')


def build_bad_special(cls, spec):
    import static_frame as sf
    if spec == 'from_tree-dup-leaf':
        return cls.from_tree({'a': [1, 2], 'b': [3, 3]})
    if spec == 'from_tree-dup-leaf-depth3':
        return cls.from_tree({'a': {1: ['x', 'y']}, 'b': {1: ['x'], 2: ['y', 'y']}})
    if spec == 'from_product-dup-outer':
        return cls.from_product(['a', 'b', 'a'], [1, 2])
    if spec == 'from_product-dup-inner':
        return cls.from_product(['a', 'b'], [1, 2, 1])
    if spec == 'from_index_items-dup-outer':
        return cls.from_index_items([('a', sf.Index([1, 2])), ('b', sf.Index([1])), ('a', sf.Index([3]))])
    if spec == 'level_add-on-dup-array':
        return cls.from_product(['a'], np.array([1, 1]))
    if spec == 'from_labels-inconsistent-depth':
        return cls.from_labels([('a', 1), ('b',)])
    raise KeyError(spec)


def ih_routes(ih, rows, info, cls, ctors):
    """derivation routes from a hierarchy `ih` presenting `rows`"""
    import static_frame as sf
    n = len(rows)
    depth = len(rows[0]) if rows else 2
    go = not cls.STATIC
    ic = ctor_objs(ctors, go)
    kw = dict(index_constructors=ic) if ic else {}
    fresh = info['fresh']
    sortable = info['sortable']
    R = []

    def add(route, thunk, expect, may_raise=False, group=None):
        R.append((route, thunk, expect, may_raise, group))

    H = lambda x: expect_of(x, hier=True)  # noqa: E731
    add('ctor-from-index', lambda: cls(ih), ('model', rows))
    add('ctor-twin-class', lambda: (sf.IndexHierarchy if go else sf.IndexHierarchyGO)(ih), ('model', rows))
    add('from_labels-values', lambda: cls.from_labels(ih.values, depth_reference=depth, **kw), ('model', rows))
    add('from_labels-iter', lambda: cls.from_labels(iter(ih), depth_reference=depth, **kw), ('model', rows))
    add('rename', lambda: ih.rename('nm'), ('model', rows))
    add('copy', lambda: ih.copy(), ('model', rows))
    add('deepcopy', lambda: copy.deepcopy(ih), ('model', rows))
    add('iloc-rev-list', lambda: ih.iloc[list(range(n))[::-1]], H(rows[::-1]))
    add('iloc-rev-slice', lambda: ih.iloc[::-1], H(rows[::-1]))
    add('iloc-tail', lambda: ih.iloc[1:], H(rows[1:]))
    add('iloc-step2', lambda: ih.iloc[::2], H(rows[::2]))
    add('iloc-bool', lambda: ih.iloc[np.arange(n) % 2 == 1], H(rows[1::2]))
    if n:
        add('iloc-list-repeat', lambda: ih.iloc[[0, n - 1, 0]], ('reject', 'duplicates'))
        if n > 1:
            add('iloc-last-first', lambda: ih.iloc[[n - 1, 0]], H([rows[-1], rows[0]]))
        add('loc-list', lambda: ih.loc[[rows[-1], rows[0]]] if n > 1 else ih.loc[[rows[0]]], H([rows[-1], rows[0]]) if n > 1 else ('model', rows[:1]))
        add('loc-slice', lambda: ih.loc[rows[n // 2]:], H(rows[n // 2:]))
        add('loc-hloc-outer', lambda: ih.loc[sf.HLoc[[rows[0][0]]]], H([r for r in rows if eq(r[0], rows[0][0])]))
        add('loc-bool', lambda: ih.loc[np.arange(n) % 2 == 0], H(rows[::2]))
    if n > 2:
        order = [0, 2, 1] + list(range(3, n))
        add('iloc-swap-1-2', lambda: ih.iloc[order], H([rows[i] for i in order]))
    add('relabel-identity', lambda: ih.relabel(lambda x: tuple(x)), ('model', rows))
    if n:
        add('relabel-dict-fresh', lambda: ih.relabel({rows[-1]: fresh[0]}), H(rows[:-1] + [fresh[0]]))
    if n > 1:
        add('relabel-dict-collide', lambda: ih.relabel({rows[0]: rows[1]}), ('reject', 'duplicates'))
        add('relabel-fn-constant', lambda: ih.relabel(lambda x: fresh[0]), ('reject', 'duplicates'))
    for rname, k in (('roll1', 1), ('roll-1', -1), ('roll-len', n), ('roll0', 0)):
        kk = (k % n) if n else 0
        add(rname, (lambda k=k: ih.roll(k)), H((rows[-kk:] + rows[:-kk]) if kk else rows))
    if sortable:
        add('sort-asc', lambda: ih.sort(), ('model', sorted(rows)))
        add('sort-desc', lambda: ih.sort(ascending=False), ('model', sorted(rows, reverse=True)))
    oth = rows[1:] + [fresh[0]]
    mr = not sortable
    if is_tree_order(oth):
        mko = lambda: cls.from_labels(list(oth), **kw)  # noqa: E731
        add('union-index', lambda: ih.union(mko()), ('set', rows + [fresh[0]]), may_raise=mr)
        add('intersection-index', lambda: ih.intersection(mko()), ('set', rows[1:]), may_raise=mr)
        add('difference-index', lambda: ih.difference(mko()), ('set', rows[:1]), may_raise=mr)
    add('union-self', lambda: ih.union(cls.from_labels(list(rows), depth_reference=depth, **kw)), ('set', rows), may_raise=mr)
    add('difference-self', lambda: ih.difference(cls.from_labels(list(rows), depth_reference=depth, **kw)), ('set', []), may_raise=mr)
    add('level_add', lambda: ih.level_add('x'), ('model', [('x',) + r for r in rows]))
    add('level_add-after-values', lambda: (ih.values, ih.level_add(9))[1], ('model', [(9,) + r for r in rows]))
    if n:
        if depth == 2:
            add('level_drop-outer', lambda: ih.level_drop(1), expect_of([r[1] for r in rows]))
            add('level_drop-inner', lambda: ih.level_drop(-1), ('model', list(dict.fromkeys(r[0] for r in rows))))
        else:
            add('level_drop-outer', lambda: ih.level_drop(1), H([r[1:] for r in rows]))
            add('level_drop-inner', lambda: ih.level_drop(-1), ('model', list(dict.fromkeys(r[:-1] for r in rows))))
            add('level_drop-outer-2', lambda: ih.level_drop(2), expect_of([r[2] for r in rows]) if depth == 3 else H([r[2:] for r in rows]))
        add('level_add-level_drop', lambda: ih.level_add('x').level_drop(1), ('model', rows))
    add('flat', lambda: ih.flat(), ('model', rows))
    add('flat-level-roundtrip', lambda: cls.from_labels(ih.flat().values, depth_reference=depth, **kw), ('model', rows))
    if info['simple'] and n:
        add('astype-all-str', lambda: ih.astype(str), H([tuple(str(v) for v in r) for r in rows]))
        for d in range(depth):
            if all(isinstance(r[d], int) for r in rows):
                add(f'astype-depth{d}-float', (lambda d=d: ih.astype[d](float)), ('model', [r[:d] + (float(r[d]),) + r[d + 1:] for r in rows]))
    if n:
        dm = list(range(depth))[::-1]
        add('rehierarch-reversed', lambda: ih.rehierarch(dm), ('set', [tuple(r[i] for i in dm) for r in rows]))
    add('series-index', lambda: sf.Series(np.arange(n), index=ih).index, ('model', rows))
    add('series-iloc-tail-index', lambda: sf.Series(np.arange(n), index=ih).iloc[1:].index, H(rows[1:]))
    add('frame-columns', lambda: (sf.FrameGO if go else sf.Frame)(np.arange(n).reshape(1, n), columns=ih).columns, ('model', rows))
    if n:
        add('frame-T-index', lambda: sf.Frame(np.arange(n).reshape(1, n), columns=ih).T.index, ('model', rows))
        add('series-hloc-index', lambda: sf.Series(np.arange(n), index=ih).loc[sf.HLoc[[rows[-1][0]]]].index, H([r for r in rows if eq(r[0], rows[-1][0])]))
        add('frame-unset-set-index', lambda: sf.Frame(np.arange(n).reshape(n, 1), index=ih, columns=('v',)).unset_index().set_index_hierarchy(
            [f'__index{d}__' for d in range(depth)], drop=True, **kw).index, ('model', rows))
    return R


def eval_ih_case(rep, case, only=None):
    import static_frame as sf
    rp = dict(case)
    cls = cls_by_name(case['cls'])
    if case['area'] == 'ih-bad':
        rows = IH_BAD[case['bad']]
        ctors = ('IndexDate', 'Index') if case['bad'] == 'interleave-date' else None
        why = 'duplicates' if not all_distinct(rows) else 'non-tree'
        eval_route(rep, 'ih', f"ctor-{case['how']}", lambda: build_ih(cls, rows, case['how'], ctors), ('reject', why), rp, only=only)
        return
    if case['area'] == 'ih-bad-special':
        eval_route(rep, 'ih', f"ctor-{case['spec']}", lambda: build_bad_special(cls, case['spec']), ('reject', 'duplicates'), rp, only=only)
        return
    info = IH_TREES[case['tree']]
    rows, ctors, how = list(info['rows']), info['ctors'], case['how']
    expect = ('model', rows) if how != 'from_labels-reorder' else ('set', rows)
    eval_route(rep, 'ih', f'ctor-{how}', lambda: build_ih(cls, rows, how, ctors), expect, rp, only=only)
    if how not in ('from_labels-list', 'from_tree', 'from_product', 'from_index_items', 'from_type_blocks'):
        return
    o = obs(lambda: build_ih(cls, rows, how, ctors))
    if o[0] == 'exc':
        return
    for route, thunk, expect, may_raise, group in ih_routes(o[1], rows, info, cls, ctors):
        eval_route(rep, 'ih', route, thunk, expect, rp, may_raise, only=only, group=group, empty=not rows)


# ---------------------------------------------------------------------------------------------
# grow-only histories

def type_class(x):
    if isinstance(x, (bool, np.bool_)):
        return 'bool'
    if isinstance(x, (int, np.integer)):
        return 'int'
    if isinstance(x, (float, np.floating)):
        return 'float'
    if isinstance(x, str):
        return 'str'
    if isinstance(x, (np.datetime64, D, DT)):
        return 'date'
    if isinstance(x, tuple):
        return ('tuple',) + tuple(type_class(e) for e in x)
    return type(x).__name__


def label_status(v, c):
    """'dup': v is a held label of c; 'ambig': only Python-equal to one of another type (1.0 vs 1, True vs 1); 'new'"""
    st = 'new'
    for l in c:
        if py_equal(v, l):
            if type_class(v) == type_class(l):
                return 'dup'
            st = 'ambig'
    return st


def _pad(pool, n=16):
    """deterministically lengthen a pool of fresh labels to n entries of the same type"""
    pool = list(pool)
    i = 0
    while len(pool) < n:
        v = pool[i % len(pool)]
        i += 1
        if isinstance(v, bool):
            new = f'fresh{i}'
        elif isinstance(v, int):
            new = 1000 + i
        elif isinstance(v, float):
            new = 1000.5 + i
        elif isinstance(v, str):
            new = f'{v}{i}'
        elif isinstance(v, tuple):
            new = v + (i,)
        elif isinstance(v, np.datetime64):
            new = v + np.timedelta64(40 + i, np.datetime_data(v.dtype)[0])
        elif isinstance(v, D):
            new = v + datetime.timedelta(days=40 + i)
        else:
            new = f'fresh{i}'
        if not any(py_equal(new, x) for x in pool):
            pool.append(new)
    return pool


FLAT_BASES = {
    'go-int': dict(cls='IndexGO', labels=[3, 1], fresh=[40, 41, 42, 43, 44, 45, 46, 47], other=['zz', 'yy', 'xx', 'ww', 'vv', 'uu', 'tt', 'ss'], pyeq=3.0),
    'go-str': dict(cls='IndexGO', labels=['a', 'b'], fresh=['p', 'q', 'r', 's', 't', 'u', 'v', 'w'], other=[7, 8, 9, 10, 11, 12, 13, 14], pyeq=None),
    'go-empty': dict(cls='IndexGO', labels=[], fresh=['p', 'q', 'r', 's', 't', 'u', 'v', 'w'], other=[7, 8, 9, 10, 11, 12, 13, 14], pyeq=None),
    'go-float': dict(cls='IndexGO', labels=[1.5, 2.0], fresh=[10.5, 11.5, 12.5, 13.5, 14.5, 15.5, 16.5, 17.5], other=['zz', 'yy', 'xx', 'ww', 'vv', 'uu', 'tt', 'ss'], pyeq=2),
    'go-mixed': dict(cls='IndexGO', labels=[1, 'a', None], fresh=['p', 50, ('q',), 2.5, 'r', 51, ('s',), 3.5], other=[D(2030, 1, i) for i in range(1, 9)], pyeq=True),
    'go-tuple': dict(cls='IndexGO', labels=[('a', 1)], fresh=[('z', 9), ('z', 8), ('y', 7), ('y', 6), ('x', 5), ('x', 4), ('w', 3), ('w', 2)], other=['zz', 5, 'yy', 6, 'xx', 7, 'ww', 8], pyeq=None),
    'go-bool': dict(cls='IndexGO', labels=[False], fresh=[True, 'b', 'c', 'd', 'e', 'f', 'g', 'h'], other=[5, 6, 7, 8, 9, 10, 11, 12], pyeq=0),
    'go-from-static': dict(cls='IndexGO', labels=[3, 1], via='static', fresh=[40, 41, 42, 43, 44, 45, 46, 47], other=['zz', 'yy', 'xx', 'ww', 'vv', 'uu', 'tt', 'ss'], pyeq=1.0),
    'go-dt64': dict(cls='IndexGO', labels=[dt('2020-01-01', 'D'), dt('2019-01-01', 'D')], via='array', fresh=[dt(f'2030-01-0{i}', 'D') for i in range(1, 9)],
                    other=[dt(f'2031-01-0{i}', 'D') for i in range(1, 9)], pyeq=None, onekey=f'{PID}:plain:history:datetime64-labels-resurface-as-date-objects'),
    'auto3': dict(cls='IndexGO', labels=[0, 1, 2], via='factory', fresh=[40, 41, 42, 43, 44, 45, 46, 47], other=['zz', 'yy', 'xx', 'ww', 'vv', 'uu', 'tt', 'ss'], pyeq=1.0),
    'auto0': dict(cls='IndexGO', labels=[], via='factory', fresh=[40, 41, 42, 43, 44, 45, 46, 47], other=['zz', 'yy', 'xx', 'ww', 'vv', 'uu', 'tt', 'ss'], pyeq=None),
    'auto-framego': dict(cls='IndexGO', labels=[0, 1, 2], via='framego', fresh=[40, 41, 42, 43, 44, 45, 46, 47], other=['zz', 'yy', 'xx', 'ww', 'vv', 'uu', 'tt', 'ss'], pyeq=True),
    'date-go': dict(cls='IndexDateGO', labels=[dt('2020-01-01', 'D'), dt('2020-01-03', 'D')], unit='D', pyeq=None),
    'year-go': dict(cls='IndexYearGO', labels=[dt('2020', 'Y')], unit='Y', pyeq=None),
    'second-go': dict(cls='IndexSecondGO', labels=[], unit='s', pyeq=None),
}


def build_flat_base(bid):
    import static_frame as sf
    from static_frame.core.index_auto import IndexAutoFactory
    b = FLAT_BASES[bid]
    cls = cls_by_name(b['cls'])
    via = b.get('via')
    if via == 'factory':
        return IndexAutoFactory.from_optional_constructor(len(b['labels']), default_constructor=sf.IndexGO)
    if via == 'framego':
        return sf.FrameGO(np.arange(2 * len(b['labels'])).reshape(2, len(b['labels']))).columns
    if via == 'static':
        return cls(sf.Index(list(b['labels'])))
    if via == 'array':
        return cls(np.array(b['labels']))
    return cls(list(b['labels']))


FLAT_OPS = 'AONDQEGXR'


def alt_form(v, k):
    """another accepted spelling of a datetime64 label (constructor-style conversion)"""
    if k % 2 == 0:
        return str(v)
    return v.item() if isinstance(v.item(), (D, DT)) else str(v)


def run_flat_history(bid, hist, sink_ops, rp):
    """returns (index, candidate models, attempted labels) or None when the history was cut short by a reported failure"""
    b = FLAT_BASES[bid]
    ix = build_flat_base(bid)
    unit = b.get('unit')
    fresh = _pad(typed_fresh(unit) if unit else b['fresh'])
    other = _pad(b.get('other', ['zz']))
    cands = [list(b['labels'])]
    tried = []
    fi = oi = 0
    held_reads = []

    def conv(v):
        return to_unit(v, unit) if unit else v

    hkind = 'auto' if b.get('via') in ('factory', 'framego') else ('dt' if unit else 'plain')

    def K(c):
        return f'{PID}:go:history:{c}'

    for step, op in enumerate(hist):
        if op == 'R':
            o = obs(lambda: (ix.values, ix.positions, len(ix), list(ix)))
            if o[0] == 'exc':
                sink_ops.fail((b.get('onekey') or hist_key('plain', hist[:step])) if ('X' in hist[:step] or 'Q' in hist[:step] or b.get('onekey')) else K(f'read-raises:{type(o[1]).__name__}'), f'reading values/positions/len/iter raises {o[1]!r} after history {hist[:step]!r} on base {bid}', rp)
                return None
            held_reads.append(o[1][0])
            continue
        # the labels this operation submits
        if op == 'A':
            items, call = [fresh[fi]], 'append'
            fi += 1
        elif op == 'O':
            if unit:
                items, call = [alt_form(fresh[fi], fi)], 'append'
                fi += 1
            else:
                items, call = [other[oi]], 'append'
                oi += 1
        elif op == 'N':
            items, call = [len(cands[0])], 'append'
        elif op in 'DX' and not cands[0]:
            return 'skip'  # nothing to duplicate
        elif op == 'D':
            items, call = [cands[0][0]], 'append'
        elif op == 'Q':
            items, call = [b['pyeq']], 'append'
        elif op == 'E':
            items, call = [fresh[fi], fresh[fi + 1]], 'extend'
            fi += 2
        elif op == 'G':
            items, call = [fresh[fi]], 'extend-gen'
            fi += 1
        elif op == 'X':
            items, call = [fresh[fi], cands[0][0]], 'extend'
            fi += 1
        tried.extend(conv(v) for v in items)
        if call == 'append':
            o = obs(lambda: ix.append(items[0]))
        elif call == 'extend':
            o = obs(lambda: ix.extend(list(items)))
        else:
            o = obs(lambda: ix.extend(v for v in items))
        raised = o[0] == 'exc'
        new_cands = []
        for c in cands:
            cur, stopped, prefixes = list(c), False, [list(c)]
            must_ok, must_raise = True, False
            for v in items:
                st = label_status(conv(v), cur)
                if st == 'dup':
                    must_ok, must_raise, stopped = False, True, True
                    break
                if st == 'ambig':
                    must_ok = False
                    prefixes.append(list(cur))  # may stop here ...
                cur = cur + [conv(v)]            # ... or go on
            if raised:
                if not must_ok:
                    # no atomicity demanded (that is C09): the untouched model or any accepted prefix
                    pre = [list(c)]
                    acc = list(c)
                    for v in items:
                        if label_status(conv(v), acc) == 'dup':
                            break
                        acc = acc + [conv(v)]
                        pre.append(list(acc))
                    new_cands.extend(pre[:-1] if not stopped and len(pre) > 1 else pre)
            else:
                if not must_raise:
                    new_cands.append(cur)
        if not new_cands:
            if raised:
                sink_ops.fail(hist_key(hkind, hist[:step]) if 'Q' in hist[:step] else K(f'growth-by-new-label-raises:{type(o[1]).__name__}'),
                              f'{call}({items!r}) raises {o[1]!r} although no submitted label is held; base {bid}, history {hist[:step + 1]!r}, labels {cands[0]!r}', rp)
            else:
                sink_ops.fail(K('growth-by-held-label-accepted'),
                              f'{call}({items!r}) returned normally although a submitted label is already held; base {bid}, history {hist[:step + 1]!r}, labels {cands[0]!r}', rp)
            return None
        # dedupe candidates
        seen, cands = set(), []
        for c in new_cands:
            k = tuple(norm(x) for x in c)
            if k not in seen:
                seen.add(k)
                cands.append(c)
    return ix, cands, tried


def check_candidates(rep, ix, cands, rp, extra, group='history', onekey=None, onekey_probes=None):
    sinks = []
    for c in cands:
        s = Sink()
        contract(s, ix, c, rp, extra_probes=[p for p in extra if not any(py_equal(p, l) for l in c)], group=group, onekey=onekey, onekey_probes=onekey_probes, small_probes=True)
        if not s.failures:
            return True
        sinks.append(s)
    sinks[0].flush(rep)
    return False


def histories(ops, maxlen):
    for n in range(1, maxlen + 1):
        for h in itertools.product(ops, repeat=n):
            yield ''.join(h)


def valid_flat_hist(bid, h):
    b = FLAT_BASES[bid]
    if b['pyeq'] is None and 'Q' in h:
        return False
    if b.get('unit') and 'N' in h:
        return False
    if 'RR' in h:
        return False
    if not b['labels'] and h[0] in 'DX':
        return False  # nothing to duplicate yet: covered by histories that append first
    return True


def hist_key(kind, hist):
    if 'Q' in hist:  # whatever goes wrong after a Python-equal append (1.0 onto an index holding 1) is one defect class
        return f'{PID}:{kind}:history:after-py-equal-append'
    return f'{PID}:{kind}:history:views-disagree-after-growth' + (':rejected-extend' if 'X' in hist else '')


def eval_flat_history(rep, bid, hist, count=True):
    rp = dict(area='hist', base=bid, hist=hist)
    b = FLAT_BASES[bid]
    kind = 'auto' if b.get('via') in ('factory', 'framego') else ('dt' if b.get('unit') else 'plain')
    r = run_flat_history(bid, hist, rep, rp)
    if r == 'skip':
        return
    if count:
        rep.count(distinct_key=('hist', bid, hist), sample=rp)
    if r is None:
        return
    ix, cands, tried = r
    key = b.get('onekey') or hist_key(kind, hist)
    check_candidates(rep, ix, cands, rp, tried, onekey=key, onekey_probes=b.get('onekey'))


IH_BASES = {
    'ihgo-t2a': dict(rows=[('a', 1), ('a', 2), ('b', 1)], ctors=None, how='from_labels-list', outer=['c', 'd', 'e', 'f', 'g', 'h', 'i', 'j', 'k', 'l'], leaf=[50, 51, 52, 53, 54, 55, 56, 57]),
    'ihgo-t2b': dict(rows=[('b', 2), ('a', 1)], ctors=None, how='from_labels-list', outer=['c', 'd', 'e', 'f', 'g', 'h', 'i', 'j', 'k', 'l'], leaf=[50, 51, 52, 53, 54, 55, 56, 57]),
    'ihgo-t3': dict(rows=[('a', 1, 'x'), ('a', 2, 'x'), ('b', 1, 'y')], ctors=None, how='from_labels-list', outer=['c', 'd', 'e', 'f', 'g', 'h', 'i', 'j', 'k', 'l'], leaf=['p', 'q', 'r', 's', 't', 'u', 'v', 'w'],
                    mid=[60, 61, 62, 63, 64, 65, 66, 67]),
    'ihgo-e2': dict(rows=[], ctors=None, how='from_labels-list', outer=['c', 'd', 'e', 'f', 'g', 'h', 'i', 'j', 'k', 'l'], leaf=[50, 51, 52, 53, 54, 55, 56, 57]),
    'ihgo-date': dict(rows=[(D1, 'a'), (D3, 'a')], ctors=('IndexDate', 'Index'), how='from_labels-list', outer=[D(2031, 1, i) for i in range(1, 11)], leaf=['p', 'q', 'r', 's', 't', 'u', 'v', 'w']),
    'ihgo-product': dict(rows=[('a', 1), ('a', 2), ('b', 1), ('b', 2)], ctors=None, how='from_product', outer=['c', 'd', 'e', 'f', 'g', 'h', 'i', 'j', 'k', 'l'], leaf=[50, 51, 52, 53, 54, 55, 56, 57]),
    'ihgo-items': dict(rows=[('a', 1), ('b', 1), ('b', 2)], ctors=None, how='from_index_items', outer=['c', 'd', 'e', 'f', 'g', 'h', 'i', 'j', 'k', 'l'], leaf=[50, 51, 52, 53, 54, 55, 56, 57]),
    'ihgo-from-static': dict(rows=[('a', 1), ('b', 1)], ctors=None, how='ctor-from-ih', outer=['c', 'd', 'e', 'f', 'g', 'h', 'i', 'j', 'k', 'l'], leaf=[50, 51, 52, 53, 54, 55, 56, 57]),
    'ihgo-tree': dict(rows=[('a', 1, 'x'), ('b', 1, 'x'), ('b', 1, 'y')], ctors=None, how='from_tree', outer=['c', 'd', 'e', 'f', 'g', 'h', 'i', 'j', 'k', 'l'], leaf=['p', 'q', 'r', 's', 't', 'u', 'v', 'w'],
                      mid=[60, 61, 62, 63, 64, 65, 66, 67]),
}
IH_OPS = 'LUMPDFEXR'


def valid_ih_hist(bid, h):
    b = IH_BASES[bid]
    depth = len(b['rows'][0]) if b['rows'] else 2
    if depth < 3 and 'M' in h:
        return False
    if 'RR' in h:
        return False
    return True


def run_ih_history(bid, hist, sink_ops, rp):
    import static_frame as sf
    b = IH_BASES[bid]
    ix = build_ih(sf.IndexHierarchyGO, list(b['rows']), b['how'], b['ctors'])
    depth = len(b['rows'][0]) if b['rows'] else 2
    ic = ctor_objs(b['ctors'])
    kw = dict(index_constructors=ic) if ic else {}
    cands = [list(b['rows'])]
    tried = []
    oi = li = mi = 0
    b = dict(b, outer=_pad(b['outer']), leaf=_pad(b['leaf']), mid=_pad(b.get('mid', [60])))

    def K(c):
        return f'{PID}:ih:history:{c}'

    for step, op in enumerate(hist):
        c0 = cands[0]
        if op == 'R':
            o = obs(lambda: (ix.values, [ix.values_at_depth(d) for d in range(depth)], len(ix), list(ix), ix.positions))
            if o[0] == 'exc':
                sink_ops.fail(hist_key('ih', hist[:step]) if 'X' in hist[:step] else K(f'read-raises:{type(o[1]).__name__}'), f'reading values/values_at_depth/len/iter raises {o[1]!r} after history {hist[:step]!r} on base {bid}', rp)
                return None
            continue
        if op in 'LMPDF' and not c0:
            return 'skip'
        ext = None
        if op == 'L':
            row = c0[-1][:-1] + (b['leaf'][li],)
            li += 1
        elif op == 'U':
            row = (b['outer'][oi],) + (c0[0][1:] if c0 else (tuple(b.get('mid', [])[:1]) * (depth - 2) + (b['leaf'][li],)))
            oi += 1
        elif op == 'M':
            row = c0[-1][:1] + (b['mid'][mi],) + c0[-1][2:]
            mi += 1
        elif op in 'PF':
            first = c0[0]
            if eq(first[:-1], c0[-1][:-1]):
                return 'skip'  # only one parent path: nothing "non-last"
            row = first if op == 'F' else first[:-1] + (b['leaf'][li],)
            if op == 'P':
                li += 1
        elif op == 'D':
            row = c0[-1]
        elif op in 'EX':
            o1 = b['outer'][oi]
            oi += 1
            inner = (c0[0][1:] if c0 else (tuple(b.get('mid', [])[:1]) * (depth - 2) + (b['leaf'][li],)))
            inner2 = inner[:-1] + (b['leaf'][li + 1],)
            li += 2
            if op == 'E':
                o2 = b['outer'][oi]
                oi += 1
                ext = [(o1,) + inner, (o1,) + inner2, (o2,) + inner]
            else:
                if not c0:
                    return 'skip'
                ext = [(o1,) + inner, (c0[0][0],) + inner2]
        if ext is None:
            tried.append(row)
            o = obs(lambda: ix.append(row))
            raised = o[0] == 'exc'
            new_cands = []
            for c in cands:
                valid = is_tree_order(c + [row])
                if raised and not valid:
                    new_cands.append(c)
                elif not raised and valid:
                    new_cands.append(c + [row])
            if not new_cands:
                # after a REJECTED extend the index is left half-grown (recorded defect class `rejected-extend`): whatever a later append does
                # wrong on that object has the same root cause and is keyed with it
                after_x = 'X' in hist[:step]
                if raised:
                    sink_ops.fail(hist_key('ih', hist[:step]) if after_x else K(f'append-of-valid-label-raises:{type(o[1]).__name__}'), f'append({row!r}) raises {o[1]!r}; base {bid}, history {hist[:step + 1]!r}, rows {c0!r}', rp)
                else:
                    why = 'held-label' if not all_distinct(c0 + [row]) else 'non-tree-label'
                    shown = obs(lambda: list(ix))
                    sink_ops.fail(hist_key('ih', hist[:step]) if after_x else K('append-under-non-last-parent-accepted' if op in 'PF' else f'append-of-{why}-accepted'),
                                  f'append({row!r}) returned normally on rows {c0!r} (the result is not a tree in the given order / repeats a label); the index now lists {shown[1]!r}', rp)
                return None
        else:
            tried.extend(ext)
            operand = sf.IndexHierarchy.from_labels(list(ext), **kw)
            o = obs(lambda: ix.extend(operand))
            raised = o[0] == 'exc'
            new_cands = []
            for c in cands:
                valid = is_tree_order(c + ext)
                disjoint = not any(eq(e[0], r[0]) for e in ext for r in c)
                if raised and not (valid and disjoint):
                    new_cands.append(c)
                    new_cands.append(c + ext[:1])  # no atomicity demanded here (C09)
                elif not raised and valid:
                    new_cands.append(c + ext)
            if not new_cands:
                if raised:
                    sink_ops.fail(K(f'extend-by-new-subtrees-raises:{type(o[1]).__name__}'), f'extend({ext!r}) raises {o[1]!r}; base {bid}, history {hist[:step + 1]!r}, rows {c0!r}', rp)
                else:
                    sink_ops.fail(K('extend-by-held-outer-label-accepted'), f'extend({ext!r}) returned normally on rows {c0!r}', rp)
                return None
        seen, cands = set(), []
        for c in new_cands:
            k = tuple(norm(x) for x in c)
            if k not in seen:
                seen.add(k)
                cands.append(c)
    return ix, cands, tried


def eval_ih_history(rep, bid, hist, count=True):
    rp = dict(area='ih-hist', base=bid, hist=hist)
    r = run_ih_history(bid, hist, rep, rp)
    if r == 'skip':
        return
    if count:
        rep.count(distinct_key=('ih-hist', bid, hist), sample=rp)
    if r is None:
        return
    ix, cands, tried = r
    key = hist_key('ih', hist)
    check_candidates(rep, ix, cands, rp, tried, onekey=key)


# ---------------------------------------------------------------------------------------------
# drivers

class Rep(Report):
    """Report whose failure records carry their key inside the replay data"""
    def check(self, cond, key, what, replay=None):
        if cond:
            return True
        return Report.check(self, cond, key, what, dict(replay or {}, key=key))


# (maximal length, alphabet) layers: every history over the alphabet up to that length
FLAT_LAYERS = {'quick': [(2, FLAT_OPS), (3, 'ANDQXR'), (4, 'AQXR')], 'thorough': [(4, FLAT_OPS), (5, 'AQXRNE')]}
IH_LAYERS = {'quick': [(2, IH_OPS), (3, 'LUPEXR'), (4, 'LEXR')], 'thorough': [(4, IH_OPS), (5, 'LUPEXR')]}


def hist_blocks(tier):
    plen = 1 if tier == 'quick' else 2
    for bid in FLAT_BASES:
        for prefix in itertools.product(FLAT_OPS, repeat=plen):
            yield dict(area='hist-block', base=bid, prefix=''.join(prefix), layers=FLAT_LAYERS[tier])
    for bid in IH_BASES:
        for prefix in itertools.product(IH_OPS, repeat=plen):
            yield dict(area='ih-hist-block', base=bid, prefix=''.join(prefix), layers=IH_LAYERS[tier])


def block_histories(case):
    flat = case['area'] == 'hist-block'
    ops = FLAT_OPS if flat else IH_OPS
    valid = valid_flat_hist if flat else valid_ih_hist
    prefix = case['prefix']
    plen = len(prefix)
    seen = set()
    if plen == 2 and prefix[1] == ops[0] and valid(case['base'], prefix[0]):
        seen.add(prefix[0])
        yield prefix[0]  # histories shorter than the prefix are attached to one block
    for maxlen, alphabet in case['layers']:
        if not all(c in alphabet for c in prefix):
            continue
        for n in range(plen, maxlen + 1):
            for rest in itertools.product(alphabet, repeat=n - plen):
                h = prefix + ''.join(rest)
                if h not in seen and valid(case['base'], h):
                    seen.add(h)
                    yield h


def all_cases(tier, parts):
    import json
    import zlib
    out = []
    if 'flat' in parts:
        out.extend(flat_cases(tier))
    if 'hier' in parts:
        out.extend(ih_cases(tier))
    if 'hist' in parts:
        out.extend(hist_blocks(tier))
    # fixed pseudo-random order so that modulo-sharding spreads the heavy cases evenly
    out.sort(key=lambda c: (zlib.crc32(json.dumps(c, sort_keys=True).encode()), json.dumps(c, sort_keys=True)))
    return out


def eval_case(rep, case, only=None):
    area = case['area']
    if area in ('flat', 'dup', 'typed', 'auto', 'ctor-dtype', 'special'):
        eval_flat_case(rep, case, only=only)
    elif area in ('ih', 'ih-bad', 'ih-bad-special'):
        eval_ih_case(rep, case, only=only)
    elif area == 'hist-block':
        for h in block_histories(case):
            eval_flat_history(rep, case['base'], h)
    elif area == 'ih-hist-block':
        for h in block_histories(case):
            eval_ih_history(rep, case['base'], h)
    elif area == 'hist':
        eval_flat_history(rep, case['base'], case['hist'])
    elif area == 'ih-hist':
        eval_ih_history(rep, case['base'], case['hist'])
    else:
        raise KeyError(area)


RULE = ('label lists of 12 families (int, str, bool, float incl. one NaN list, tuple, date, datetime64 D/s/Y/M/ns, mixed object; empty; 6 input forms incl. generators and arrays) '
        'x Index/IndexGO, 9 typed datetime classes and their GO forms, 13 sources of auto-integer indices (n <= 4), 12 label trees x 17 hierarchy construction routes; '
        'each index is pushed through every derivation route (selection, drop, relabel, roll, sort, set operations, level_add/level_drop/flat, astype, rename/copy, containers, rehierarch); '
        'duplicate / non-tree inputs must raise ErrorInitIndex*; grow-only histories over 9 operations (fresh/other-typed/duplicate/Python-equal appends, extends incl. a failing one, cache reads). '
        'A case is non-trivial when the index under test holds >= 1 label or a rejection is expected; every history is non-trivial.')


def _run(task, parts, name):
    tier = task.get('tier', 'quick')
    bound = ('labels per index <= 5 (+ <= 8 appended); hierarchies depth 2-4 with <= 4 rows; histories of length <= '
             + ('2 over 9 operations, 3 over 6, 4 over 4' if tier == 'quick' else '4 over 9 operations, 5 over 6')
             + '; 15 flat and 9 hierarchical grow-only bases')
    rep = Rep(name, task, rule=RULE, bound=bound)
    rep.trusted.add('numpy casts (astype) and Python sorted() are used to state the expected labels of astype / sort routes')
    rep.assumptions.add('a probe that is Python-equal to a held label of another type (1.0 vs 1, True vs 1, datetime64 of another unit) carries no demand')
    rep.assumptions.add('an exception raised by `label in index` for a foreign-typed probe counts as "not contained"')
    for case in rep.shard(all_cases(tier, parts)):
        try:
            eval_case(rep, case)
        except Exception:
            rep.error(repr(case))
    return rep.done()


def run(repo, task):
    return _run(task, ('flat', 'hier', 'hist'), 'C02-index-bijection')


def run_flat(repo, task):
    return _run(task, ('flat',), 'C02-index-bijection-flat')


def run_hier(repo, task):
    return _run(task, ('hier',), 'C02-index-bijection-hier')


def run_hist(repo, task):
    return _run(task, ('hist',), 'C02-index-bijection-hist')


def replay(repo, rp):
    case = {k: v for k, v in rp.items() if k not in ('task', 'key', 'route')}
    rep = Rep('C02-replay', dict(tier='quick'), rule='', bound='')
    try:
        eval_case(rep, case, only=rp.get('route')) if case['area'] not in ('hist', 'ih-hist') else eval_case(rep, case)
    except Exception as e:
        return dict(outcome='error', detail=repr(e))
    key = rp.get('key')
    hit = rep.failures.get(key) if key else (next(iter(rep.failures.values())) if rep.failures else None)
    if hit:
        return dict(outcome='fail', key=hit['key'], what=hit['what'])
    return dict(outcome='pass', evaluations=rep.evaluations, other_failures=sorted(rep.failures))
