"""C20 bounded stand-in: reshaping and relational operations follow their relational definitions.

Contract evaluated at run time on the real package against a pure-Python relational reference built from the SOURCE rows
(lists of Python cells), never from the package:

pivot       rows  = the distinct index-field values (tuples for 2 fields), no duplicates;
            cols  = distinct column-field values x data fields (when > 1 or no column field) x function labels (when > 1);
            cell  = func(array of the data-field values of exactly the source rows with that (row, column) key), fill_value
                    where there is no such row.                                     [dict-of-rows group / aggregate]
stack/unstack  f.pivot_stack(d).pivot_unstack(last depth(s)) holds every original cell under (row label, remaining + moved
            column levels); every other cell is the fill value; the index is the original index.
join        nested-loop join: pairs (i, j) with equal keys; inner = pairs; left/right/outer add the unmatched rows of the
            preserved side(s) with fill_value; every output row = left source row (or fill) ++ right source row (or fill);
            columns = left_template(left columns) ++ right_template(right columns); composite labels (l, r) name the two
            source rows;  multiset equality of rows (row order is not part of the property).
set_index / set_index_hierarchy / unset_index / relabel_shift_in / relabel_shift_out
            labels == the moved cells, every remaining cell stays in its row, and the inverse operation restores all cells.
All dtype-safe block layouts of the participating frames (<= 4 columns; a fixed sample of layouts for wider frames).
"""
from __future__ import annotations
import itertools
import warnings
import numpy as np
from .common import Report, layouts_dtype_safe, frame_from, _cell

PID = 'C20'


class Rep(Report):
    """Report whose failures carry their own key in the replay data; `cap` bounds the number of distinct keys kept"""
    cap = 40

    def check(self, cond, key, what, replay=None):
        if cond:
            return True
        if key not in self.failures and len(self.failures) < self.cap:
            self.failures[key] = dict(key=key, what=what, replay=dict(replay or {}, key=key, task=self.name))
        return False


# ---------------------------------------------------------------------------------------------
# canonical cells / labels

def ccell(x):
    """canonical cell by VALUE: NaN / NaT -> 'NaN'; int 1 == float 1.0 == True (a fill value may turn an int or bool column into
    float / int: the property asks for the value of the cell, not its dtype); str, None and numbers never confused"""
    c = _cell(x)
    if c in ('NaN', 'NaT'):
        return 'NaN'
    if isinstance(c, tuple) and c[0] in ('int', 'float', 'bool'):
        import fractions
        import math
        v = c[1]
        if isinstance(v, float) and not math.isfinite(v):
            return ('num', v)
        return ('num', fractions.Fraction(v))      # exact: an int64 beyond 2**53 and the float64 next to it are different cells
    return c


def clab(v):
    """canonical label: tuples for hierarchical labels, Python scalars otherwise"""
    if isinstance(v, np.ndarray):
        v = v.tolist()
    if isinstance(v, (tuple, list)):
        return tuple(clab(x) for x in v)
    if isinstance(v, np.generic):
        v = v.item()
    if isinstance(v, float) and v != v:
        return 'NaN'
    if isinstance(v, float) and v == int(v):
        return int(v)      # 1.0 and 1 are the same label (hash-equal in Python)
    return v


def labels_of(index):
    if index.depth == 1:
        return [clab(v) for v in index.values]
    return [clab(tuple(r)) for r in index.values]


def frame_cells(f):
    """{(row label, column label): canonical cell}, row labels, column labels  -- read column by column (no consolidation)"""
    rl, cl = labels_of(f.index), labels_of(f.columns)
    out = {}
    for j, arr in enumerate(f.iter_array(axis=0)):
        for i, x in enumerate(arr):
            out[(rl[i], cl[j])] = ccell(x)
    return out, rl, cl


def frame_rows(f):
    """row label list, column label list, rows as tuples of canonical cells (by position)"""
    rl, cl = labels_of(f.index), labels_of(f.columns)
    cols = list(f.iter_array(axis=0))
    rows = [tuple(ccell(c[i]) for c in cols) for i in range(f.shape[0])]
    return rl, cl, rows


def observe(fn):
    with warnings.catch_warnings():
        warnings.simplefilter('ignore')
        with np.errstate(all='ignore'):
            try:
                return fn(), None
            except Exception as e:
                return None, e


def pick_layouts(cols, tier, limit_all=4, sample=3):
    lays = list(layouts_dtype_safe(cols))
    if len(cols) <= limit_all and (tier != 'quick' or len(lays) <= 12):
        return lays
    step = max(1, len(lays) // sample)
    return (lays[::step] + [lays[-1]])[:sample + 1]


# ---------------------------------------------------------------------------------------------
# PIVOT

def _count(a):
    return len(a)


def _first_last(a):
    return a[0] * 100 + a[-1]


PIVOT_FUNCS = {
    'default': None,
    'sum': np.sum,
    'max': np.max,
    'count': _count,                       # not idempotent on a single row
    'map2': {'s': np.sum, 'm': np.max},
    'map1': {'s': np.sum},
    'mapc': {'n': _count, 'x': np.max},
}
PIVOT_FILLS = {'nan': float('nan'), 'zero': 0, 'dash': '-', 'none': None}
PIVOT_CONFIGS = [
    (('a',), ('b',), ('v',)),
    (('a',), (), ('v',)),
    (('a', 'a2'), ('b',), ('v',)),
    (('a',), ('b', 'b2'), ('v',)),
    (('a',), ('b',), ('v', 'w')),
    (('a', 'a2'), ('b', 'b2'), ('v', 'w')),
    (('a',), (), ('v', 'w')),
    (('a', 'a2'), (), ('v',)),
    (('a2',), ('a',), ('w',)),
    (('a',), ('b', 'b2'), ('v', 'w')),
    # data fields listed in an order other than their column order in the source
    (('a',), ('b',), ('w', 'v')),
    (('a',), (), ('w', 'v')),
    (('a2',), ('b', 'b2'), ('w', 'v')),
]


def pivot_source(assign):
    n = len(assign)
    a = np.array([('x', 'y')[p // 2] for p in assign], dtype='<U1')
    b = np.array([('q', 'p')[p % 2] for p in assign], dtype='<U1')
    a2 = np.array([(1, 0, 0, 1, 1)[i] for i in range(n)], dtype=np.int64)
    b2 = np.array([(7, 7, 8, 7, 8)[i] for i in range(n)], dtype=np.int64)
    v = np.array([(1, 2, 4, 8, 16)[i] for i in range(n)], dtype=np.int64)
    w = np.array([(0.5, 1.5, 2.0, -3.0, 4.25)[i] for i in range(n)], dtype=np.float64)
    return dict(a=a, b=b, a2=a2, b2=b2, v=v, w=w)


def pivot_cases(tier):
    q = tier == 'quick'
    for n in (1, 2, 3):
        for assign in itertools.product(range(4), repeat=n):
            yield ('P', assign)
    for k, assign in enumerate(itertools.product(range(4), repeat=4)):
        if not q or k % 4 == 1:
            yield ('P', assign)
    if not q:
        for k, assign in enumerate(itertools.product(range(4), repeat=5)):
            if k % 16 == 3:
                yield ('P', assign)


def ref_pivot(src, n, idx_f, col_f, dat_f, func, fill, skip_single=False):
    func_single = None
    if func is None:
        fmap = [('', np.nansum)]
    elif callable(func):
        fmap = [('', func)]
    else:
        fmap = list(func.items())
    multi_func = len(fmap) > 1
    rkeys, ckeys, groups = [], [], {}
    for i in range(n):
        rk = tuple(clab(src[f][i]) for f in idx_f)
        rk = rk[0] if len(idx_f) == 1 else rk
        ck = tuple(clab(src[f][i]) for f in col_f)
        if rk not in rkeys:
            rkeys.append(rk)
        if ck not in ckeys:
            ckeys.append(ck)
        groups.setdefault((rk, ck), []).append(i)
    labels = []
    for ck in ckeys:
        for d in dat_f:
            for fl, fn in fmap:
                lab = ck + ((d,) if (len(dat_f) > 1 or not col_f) else ()) + ((fl,) if multi_func else ())
                labels.append((lab, ck, d, fn))
    cells = {}
    for rk in rkeys:
        for lab, ck, d, fn in labels:
            rows = groups.get((rk, ck))
            if not rows:
                cells[(rk, lab)] = ccell(fill)
            elif skip_single and len(rows) == 1:
                cells[(rk, lab)] = ccell(src[d][rows[0]])
            else:
                cells[(rk, lab)] = ccell(fn(src[d][rows]))
    return rkeys, [l[0] for l in labels], cells


def eval_pivot_case(rep, case, tier):
    _, assign = case
    n = len(assign)
    src = pivot_source(assign)
    for ci, (idx_f, col_f, dat_f) in enumerate(PIVOT_CONFIGS):
        used = list(dict.fromkeys(idx_f + col_f + dat_f))
        order = [c for c in ('a', 'b', 'v', 'a2', 'w', 'b2') if c in used]   # interleave dtypes so that blocks of several widths occur
        cols = [src[c] for c in order]
        all_lays = pick_layouts(cols, tier)
        for fi, (fname, func) in enumerate(PIVOT_FUNCS.items()):
            fillname = list(PIVOT_FILLS)[(ci + fi) % len(PIVOT_FILLS)]
            fill = PIVOT_FILLS[fillname]
            lays = all_lays if fname == 'default' else (all_lays[::max(1, len(all_lays) - 1)] if tier == 'quick' else all_lays)
            rk, cl, cells = ref_pivot(src, n, idx_f, col_f, dat_f, func, fill)
            _, _, cells_skip = ref_pivot(src, n, idx_f, col_f, dat_f, func, fill, skip_single=True)
            for lay in lays:
                rp = dict(case=['P', list(assign)], config=ci, func=fname, fill=fillname, layout=[list(x) for x in lay])
                f = frame_from(cols, lay, index=None, column_labels=order)
                kw = dict(fill_value=fill)
                if func is not None:
                    kw['func'] = func
                res, exc = observe(lambda: f.pivot(idx_f if len(idx_f) > 1 else idx_f[0], col_f if len(col_f) != 1 else col_f[0], dat_f if len(dat_f) > 1 else dat_f[0], **kw))
                rep.count(distinct_key=('P', assign, ci, fname, fillname, lay), sample=dict(rp, shape=None if res is None else list(res.shape)))
                desc = f'pivot(index={idx_f}, columns={col_f}, data={dat_f}, func={fname}, fill_value={fill!r}) on rows {[tuple(clab(src[c][i]) for c in order) for i in range(n)]} (columns {order})'
                if exc is not None:
                    rep.fail(f'{PID}:pivot:idx{len(idx_f)}-col{len(col_f)}-dat{len(dat_f)}:raises:{type(exc).__name__}', f'{desc} raises {exc!r:.200}', rp)
                    continue
                got, grl, gcl = frame_cells(res)
                gcl_t = [c if isinstance(c, tuple) else (c,) for c in gcl]
                got = {(r, c if isinstance(c, tuple) else (c,)): x for (r, c), x in got.items()}
                ok = rep.check(sorted(map(repr, grl)) == sorted(map(repr, rk)) and len(set(grl)) == len(grl), f'{PID}:pivot:row-labels',
                               f'{desc}: result rows {grl} != one row per distinct index-field value {rk}', rp)
                ok &= rep.check(sorted(map(repr, gcl_t)) == sorted(map(repr, cl)) and len(set(gcl_t)) == len(gcl_t), f'{PID}:pivot:column-labels',
                                f'{desc}: result columns {gcl_t} != one column per distinct column-field / data field / function combination {cl}', rp)
                if not ok:
                    continue
                bad = [(k, got[k], cells[k]) for k in cells if got[k] != cells[k]]
                if bad:
                    bad_skip = [k for k in cells_skip if got[k] != cells_skip[k]]
                    isfill = all(e == ccell(fill) or g == ccell(fill) for _, g, e in bad)
                    key = (f'{PID}:pivot:func-not-applied-to-single-row-group' if not bad_skip else
                           f'{PID}:pivot:fill-value-cell-differs' if isfill else f'{PID}:pivot:cell-differs')
                    rep.fail(key, f'{desc}: cells (row, column, got, expected) {bad[:3]}', rp)


# ---------------------------------------------------------------------------------------------
# PIVOT_STACK / PIVOT_UNSTACK round trip

def stack_cases(tier):
    # (column label set id, index depth, rows, depth levels to move)
    for cset in range(7):
        for idepth in (1, 2):
            for r in (1, 2, 3):
                yield ('K', cset, idepth, r)


STACK_COLS = [
    (1, [('v',), ('w',), ('s',)]),
    (1, [(3,), (1,), (2,)]),
    (2, [('A', 1), ('A', 2), ('B', 1)]),
    (2, [('B', 'x'), ('A', 'y'), ('A', 'x'), ('C', 'z')]),
    (3, [('A', 1, 'p'), ('A', 1, 'q'), ('B', 2, 'p')]),
    (2, [('A', 1), ('B', 2)]),
    (2, [('id', 'open'), ('id', 'close'), ('px', 'open'), ('px', 'close')]),
]


def eval_stack_case(rep, case, tier):
    import static_frame as sf
    _, cset, idepth, r = case
    cdepth, clabels = STACK_COLS[cset]
    m = len(clabels)
    kinds = ['i', 'f', 'i', 'U'][:m] if cset not in (3, 6) else ['i', 'i', 'f', 'f']
    cols = []
    for j, k in enumerate(kinds):
        if k == 'i':
            # (column set 6 holds 64-bit ids a float64 cannot represent, next to float columns; only the level that keeps ints and floats in separate stacked columns is moved)
            cols.append(np.arange(r, dtype=np.int64) * 10 + j + 1 + (2 ** 60 + 1 if cset == 6 else 0))
        elif k == 'f':
            cols.append(np.arange(r, dtype=np.float64) / 2 + j + 0.25)
        else:
            cols.append(np.array([f's{i}{j}' for i in range(r)], dtype='<U3'))
    ilabels = [('r', 2), ('r', 1), ('q', 1)][:r] if idepth == 2 else ['r2', 'r1', 'q1'][:r]
    index = sf.IndexHierarchy.from_labels(ilabels) if idepth == 2 else sf.Index(ilabels)
    columns = sf.IndexHierarchy.from_labels(clabels) if cdepth > 1 else sf.Index([c[0] for c in clabels])
    levels = [0] if cdepth == 1 else ([0, 1, [0, 1]] if cdepth == 2 else [0, 2, [0, 1], [1, 2], [0, 1, 2]])
    if cset == 6:
        levels = [1]
    fills = {'nan': float('nan'), 'zero': 0, 'dash': '-'}
    for lay in pick_layouts(cols, tier):
        f = frame_from(cols, lay, index=index, column_labels=columns)
        for level in levels:
            for fillname, fill in fills.items():
                moved = level if isinstance(level, list) else [level]
                rp = dict(case=list(case), level=level, fill=fillname, layout=[list(x) for x in lay])
                back = list(range(idepth, idepth + len(moved)))
                res, exc = observe(lambda: f.pivot_stack(level, fill_value=fill).pivot_unstack(back if len(back) > 1 else back[0], fill_value=fill))
                rep.count(distinct_key=('K', cset, idepth, r, str(level), fillname, lay), sample=dict(rp, shape=None if res is None else list(res.shape)))
                desc = f'pivot_stack({level}).pivot_unstack({back}) with fill {fill!r} on index {ilabels} columns {clabels}'
                if exc is not None:
                    rep.fail(f'{PID}:stack-unstack:raises:{type(exc).__name__}', f'{desc} raises {exc!r:.200}', rp)
                    continue
                got, grl, gcl = frame_cells(res)
                exp_rl = [clab(l) for l in ilabels]
                if not rep.check(grl == exp_rl, f'{PID}:stack-unstack:index-changed', f'{desc}: index {grl} != {exp_rl}', rp):
                    continue
                expected = {}
                for j, lab in enumerate(clabels):
                    rem = tuple(lab[d] for d in range(cdepth) if d not in moved) or (0,)
                    new = clab(rem + tuple(lab[d] for d in moved))
                    for i in range(r):
                        expected[(exp_rl[i], new)] = ccell(cols[j][i])
                missing = [k for k in expected if k not in got]
                if not rep.check(not missing, f'{PID}:stack-unstack:cell-lost', f'{desc}: original cells without a counterpart {missing[:3]} (result columns {gcl})', rp):
                    continue
                def _same(a, b):
                    if a == b:
                        return True
                    # a NaN fill value turns an integer column into float64 (NumPy promotion, the recorded C07 finding): integers beyond 2**53 are then compared as floats
                    return fillname == 'nan' and isinstance(a, tuple) and isinstance(b, tuple) and a[0] == b[0] == 'num' and float(a[1]) == float(b[1])
                bad = [(k, got[k], expected[k]) for k in expected if not _same(got[k], expected[k])]
                rep.check(not bad, f'{PID}:stack-unstack:cell-changed', f'{desc}: (position, got, original) {bad[:3]}', rp)
                extra = [(k, x) for k, x in got.items() if k not in expected and x != ccell(fill)]
                rep.check(not extra, f'{PID}:stack-unstack:non-fill-cell-invented', f'{desc}: cells that do not stem from the original and are not the fill value {extra[:3]}', rp)


# ---------------------------------------------------------------------------------------------
# JOIN

JOINS = ('join_inner', 'join_left', 'join_right', 'join_outer')


def join_cases(tier):
    q = tier == 'quick'
    vecs = [v for n in (1, 2, 3) for v in itertools.product((1, 2, 3), repeat=n)]
    for lv in vecs:
        for rv in vecs:
            yield ('J', lv, rv)
    for v in vecs[:12]:
        yield ('J', (), v)
        yield ('J', v, ())
    if not q:
        for lv in itertools.product((1, 2), repeat=4):
            for rv in itertools.product((1, 2), repeat=4):
                yield ('J', lv, rv)


def ref_join(lrows, rrows, lkeys, rkeys, how, fill):
    """nested-loop join -> list of (i or None, j or None, row tuple of canonical cells)"""
    nl = len(lrows[0]) if lrows else None
    pairs = [(i, j) for i in range(len(lrows)) for j in range(len(rrows)) if lkeys[i] == rkeys[j]]
    out = list(pairs)
    ml, mr = {i for i, _ in pairs}, {j for _, j in pairs}
    if how in ('join_left', 'join_outer'):
        out += [(i, None) for i in range(len(lrows)) if i not in ml]
    if how in ('join_right', 'join_outer'):
        out += [(None, j) for j in range(len(rrows)) if j not in mr]
    return out


def eval_join_case(rep, case, tier):
    import static_frame as sf
    _, lv, rv = case
    nl, nr = len(lv), len(rv)
    # left: key k (int), second key k2 (str), payload lv (int), ls (str)
    L = dict(k=np.array(lv, dtype=np.int64), k2=np.array([('u', 'w')[(i // 2) % 2] for i in range(nl)], dtype='<U1'),
             lv=np.arange(nl, dtype=np.int64) * 10 + 10, ls=np.array([f'a{i}' for i in range(nl)], dtype='<U2'))
    R = dict(k=np.array(rv, dtype=np.int64), k2=np.array([('u', 'w')[i % 2] for i in range(nr)], dtype='<U1'),
             rv=np.arange(nr, dtype=np.float64) + 0.5, rb=np.array([i % 2 == 0 for i in range(nr)], dtype=bool))
    variants = [
        # name, left columns, right columns (label -> source), key spec, templates, fill, index label style
        ('cols', ('k', 'lv', 'ls'), (('kr', 'k'), ('rv', 'rv')), ('k',), ('{}', '{}'), 'nan', 'disjoint'),
        ('cols-overlap-labels', ('k', 'lv', 'ls'), (('kr', 'k'), ('rv', 'rv')), ('k',), ('{}', '{}'), 'nan', 'overlap'),
        ('templates', ('k', 'lv'), (('k', 'k'), ('rv', 'rv'), ('rb', 'rb')), ('k',), ('L_{}', 'R_{}'), 'int', 'disjoint'),
        ('two-keys', ('k', 'k2', 'lv'), (('kr', 'k'), ('k2r', 'k2'), ('rv', 'rv')), ('k', 'k2'), ('{}', '{}'), 'str', 'overlap'),
        ('left-index-key', ('lv', 'ls'), (('kr', 'k'), ('rv', 'rv')), ('k',), ('{}', '{}'), 'none', 'key'),
        ('both-index-key', ('lv',), (('rv', 'rv'),), ('k',), ('{}', '{}'), 'nan', 'key2'),
    ]
    fills = {'nan': float('nan'), 'int': -1, 'str': 'Z', 'none': None}
    for vname, lcols, rcols, keyf, (lt, rt), fillname, lstyle in variants:
        fill = fills[fillname]
        if lstyle in ('key', 'key2') and len(set(lv)) != len(lv):
            continue   # precondition of an Index: unique labels
        if lstyle == 'key2' and len(set(rv)) != len(rv):
            continue
        if tier == 'quick' and vname not in ('cols', 'cols-overlap-labels') and (nl + nr) > 4:
            continue
        larr = [L[c] for c in lcols]
        rarr = [R[s] for _, s in rcols]
        rlabels = [l for l, _ in rcols]
        if lstyle == 'disjoint':
            lidx, ridx = [f'l{i}' for i in range(nl)], [f'r{i}' for i in range(nr)]
        elif lstyle == 'overlap':
            lidx, ridx = list(range(nl)), list(range(nr))
        elif lstyle == 'key':
            lidx, ridx = [int(x) for x in lv], [f'r{i}' for i in range(nr)]
        else:
            lidx, ridx = [int(x) for x in lv], [int(x) for x in rv]
        lkeys = [tuple(clab(L[kf][i]) for kf in keyf) for i in range(nl)]
        rkeys = [tuple(clab(R[kf][j]) for kf in keyf) for j in range(nr)]
        lrows = [tuple(ccell(a[i]) for a in larr) for i in range(nl)]
        rrows = [tuple(ccell(a[j]) for a in rarr) for j in range(nr)]
        exp_cols = [lt.format(c) for c in lcols] + [rt.format(c) for c in rlabels]
        kwargs = {}
        if lstyle in ('key', 'key2'):
            kwargs['left_depth_level'] = 0
        else:
            kwargs['left_columns'] = list(keyf) if len(keyf) > 1 else keyf[0]
        if lstyle == 'key2':
            kwargs['right_depth_level'] = 0
        else:
            rk = [l for l, s in rcols if s in keyf]
            kwargs['right_columns'] = rk if len(rk) > 1 else rk[0]
        kwargs.update(left_template=lt, right_template=rt, fill_value=fill)
        llays = pick_layouts(larr, tier) if larr else [()]
        if tier == 'quick' and (nl + nr) > 4:
            llays = llays[::max(1, len(llays) - 1)]
        rlay = tuple((1, True) for _ in rarr)
        rframe = frame_from(rarr, rlay, index=ridx, column_labels=rlabels)
        for li, lay in enumerate(llays):
            lframe = frame_from(larr, lay, index=lidx, column_labels=list(lcols))
            for how in JOINS:
                for composite in ((True, False) if (li == 0 or tier != 'quick') else (True,)):
                    rp = dict(case=['J', list(lv), list(rv)], variant=vname, how=how, composite=composite, layout=[list(x) for x in lay])
                    res, exc = observe(lambda: getattr(lframe, how)(rframe, composite_index=composite, **kwargs))
                    ref = ref_join(lrows, rrows, lkeys, rkeys, how, fill)
                    many = len({i for i, j in ref if i is not None and j is not None}) != len([1 for i, j in ref if i is not None and j is not None]) or \
                        len({j for i, j in ref if i is not None and j is not None}) != len([1 for i, j in ref if i is not None and j is not None])
                    rep.count(distinct_key=('J', lv, rv, vname, how, composite, lay) if ref else None, sample=dict(rp, rows=None if res is None else res.shape[0]))
                    desc = (f'{how}(composite_index={composite}, {({k: v for k, v in kwargs.items() if "template" not in k})}) left keys {lkeys} index {lidx} x right keys {rkeys} index {ridx}')
                    ck = 'composite' if composite else 'plain-index'
                    if exc is not None:
                        if not composite and many and type(exc).__name__ == 'RuntimeError':
                            continue   # documented refusal: a plain index cannot label a one-to-many result
                        rep.fail(f'{PID}:join:{ck}:{how}:raises:{type(exc).__name__}', f'{desc} raises {exc!r:.200}', rp)
                        continue
                    grl, gcl, grows = frame_rows(res)
                    if not rep.check(gcl == exp_cols, f'{PID}:join:{ck}:column-labels', f'{desc}: columns {gcl} != {exp_cols}', rp):
                        continue
                    lfill, rfill = tuple(ccell(fill) for _ in lcols), tuple(ccell(fill) for _ in rlabels)
                    exp_rows = sorted(repr((lrows[i] if i is not None else lfill) + (rrows[j] if j is not None else rfill)) for i, j in ref)
                    got_rows = sorted(repr(r) for r in grows)
                    if not rep.check(got_rows == exp_rows, f'{PID}:join:{ck}:{how}:rows-differ-from-nested-loop-join',
                                     f'{desc}: rows {sorted(grows, key=repr)[:6]} != reference {[(lrows[i] if i is not None else lfill) + (rrows[j] if j is not None else rfill) for i, j in ref][:6]}', rp):
                        continue
                    # the label names the source rows of an output row
                    lpos = {clab(l): i for i, l in enumerate(lidx)}
                    rpos = {clab(l): j for j, l in enumerate(ridx)}
                    okl = True
                    for lab, row in zip(grl, grows):
                        lpart, rpart = row[:len(lcols)], row[len(lcols):]
                        if composite and isinstance(lab, tuple) and len(lab) == 2:
                            a, b = lab
                            okl &= (lpart == (lrows[lpos[a]] if a is not None and a in lpos else lfill)) if (a is None or a in lpos) else False
                            okl &= (rpart == (rrows[rpos[b]] if b is not None and b in rpos else rfill)) if (b is None or b in rpos) else False
                        elif not composite and lstyle == 'disjoint':
                            if lab in lpos:
                                okl &= lpart == lrows[lpos[lab]]
                            elif lab in rpos:
                                okl &= rpart == rrows[rpos[lab]]
                            else:
                                okl = False
                    rep.check(okl, f'{PID}:join:{ck}:{how}:label-does-not-name-its-source-rows', f'{desc}: labels {grl} vs rows {grows[:6]}', rp)


# ---------------------------------------------------------------------------------------------
# set_index / set_index_hierarchy / unset_index / relabel_shift_in / relabel_shift_out

def index_col(kind, j, r):
    if kind == 'i':
        return (np.array([3, 1, 2], dtype=np.int64) + 10 * j)[:r]
    if kind == 'U':
        return np.array([f'c{j}', f'a{j}', f'b{j}'], dtype='<U2')[:r]
    if kind == 'f':
        return (np.array([1.5, 0.5, 2.5]) + j)[:r]
    if kind == 'b':
        return np.array([True, False, True], dtype=bool)[:r]
    if kind == 'g':     # repeated, contiguous (valid outer level of a hierarchy)
        return (np.array([5, 5, 6], dtype=np.int64) + 10 * j)[:r]
    if kind == 'h':     # repeated, not contiguous
        return (np.array([5, 6, 5], dtype=np.int64) + 10 * j)[:r]
    raise ValueError(kind)


def index_cases(tier):
    q = tier == 'quick'
    kinds = ('i', 'U', 'f', 'b', 'g', 'h')
    for m in (1, 2, 3):
        for ks in itertools.product(kinds, repeat=m):
            for r in (0, 2, 3):
                yield ('I', ks, r)
    sel = [ks for k, ks in enumerate(itertools.product(kinds, repeat=4)) if (k % (18 if q else 3) == 4)]
    for ks in sel:
        for r in ((3,) if q else (2, 3)):
            yield ('I', ks, r)


def eval_index_case(rep, case, tier):
    import static_frame as sf
    _, kinds, r = case
    kinds = tuple(kinds)
    m = len(kinds)
    cols = [index_col(k, j, r) for j, k in enumerate(kinds)]
    clabels = [f'c{j}' for j in range(m)]
    ilabels = [f'r{i}' for i in range(r)][::-1]
    src = {c: [ccell(x) for x in a] for c, a in zip(clabels, cols)}
    uniq = {c: len({repr(x) for x in src[c]}) == r for c in clabels}

    def cells_by_pos(f):
        rl, cl = labels_of(f.index), labels_of(f.columns)
        return rl, cl, {c: [ccell(x) for x in a] for c, a in zip(cl, f.iter_array(axis=0))}

    for lay in pick_layouts(cols, tier):
        f = frame_from(cols, lay, index=ilabels, column_labels=clabels)
        base_rp = dict(case=['I', list(kinds), r], layout=[list(x) for x in lay])
        # ---- set_index / unset_index
        for c in clabels:
            for drop in (False, True):
                rp = dict(base_rp, op='set_index', col=c, drop=drop)
                res, exc = observe(lambda: f.set_index(c, drop=drop))
                rep.count(distinct_key=('I', kinds, r, lay, 'set_index', c, drop) if r else None, sample=rp)
                if exc is not None:
                    if not uniq[c]:
                        continue   # precondition: the column holds unique values
                    rep.fail(f'{PID}:set_index:raises:{type(exc).__name__}', f'set_index({c!r}, drop={drop}) on kinds {kinds} rows {r} raises {exc!r:.160}', rp)
                    continue
                rl, cl, cells = cells_by_pos(res)
                keep = [x for x in clabels if not (drop and x == c)]
                ok = rep.check([ccell(x) for x in rl] == [ccell(clab(x)) for x in cols[clabels.index(c)]], f'{PID}:set_index:labels-differ-from-column',
                               f'set_index({c!r}, drop={drop}) on kinds {kinds} rows {r} layout {lay}: index {rl} != column cells {src[c]}', rp)
                ok &= rep.check(cl == keep and all(cells[x] == src[x] for x in keep if x in cells), f'{PID}:set_index:cell-or-column-changed',
                                f'set_index({c!r}, drop={drop}) on kinds {kinds} rows {r} layout {lay}: columns {cl} cells {cells} != source {keep} {src}', rp)
                if ok and uniq[c]:
                    # with drop=False the column is still there: the returning index needs another name
                    back, exc = observe(lambda: res.unset_index() if drop else res.unset_index(names=('__idx__',)))
                    rep.count()
                    if exc is not None:
                        rep.fail(f'{PID}:unset_index:raises:{type(exc).__name__}', f'set_index({c!r}, drop={drop}).unset_index() raises {exc!r:.160}', dict(rp, op='unset_index'))
                        continue
                    brl, bcl, bcells = cells_by_pos(back)
                    expc = [c] + keep
                    if not drop:
                        rep.check(bcl == ['__idx__'] + keep and bcells['__idx__'] == src[c] and all(bcells[x] == src[x] for x in keep) and brl == list(range(r)), f'{PID}:unset_index:cell-or-label-changed',
                                  f'set_index({c!r}, drop=False).unset_index(names=("__idx__",)) on kinds {kinds} rows {r} layout {lay}: columns {bcl}, index {brl}, cells {bcells}; source {src}', dict(rp, op='unset_index'))
                    else:
                        rep.check(bcl == expc and all(bcells[x] == src[x] for x in expc) and brl == list(range(r)), f'{PID}:unset_index:cell-or-label-changed',
                                  f'set_index({c!r}, drop=True).unset_index() on kinds {kinds} rows {r} layout {lay}: columns {bcl} index {brl} cells {bcells} != {expc} {src}', dict(rp, op='unset_index'))
        # ---- set_index_hierarchy (+ unset_index)
        if m >= 2 and r:
            for c1, c2 in itertools.permutations(clabels, 2):
                pairs = list(zip(src[c1], src[c2]))
                if len(set(map(repr, pairs))) != r:
                    continue    # precondition: unique labels
                contiguous = all(src[c1][i] == src[c1][i - 1] or src[c1][i] not in src[c1][:i] for i in range(1, r))
                for drop, reorder in ((True, False), (False, True), (True, True)):
                    rp = dict(base_rp, op='set_index_hierarchy', cols=[c1, c2], drop=drop, reorder=reorder)
                    res, exc = observe(lambda: f.set_index_hierarchy([c1, c2], drop=drop, reorder_for_hierarchy=reorder))
                    rep.count(distinct_key=('I', kinds, r, lay, 'sih', c1, c2, drop, reorder))
                    desc = f'set_index_hierarchy([{c1!r}, {c2!r}], drop={drop}, reorder_for_hierarchy={reorder}) on kinds {kinds} rows {r} layout {lay}'
                    if exc is not None:
                        if not reorder and not contiguous:
                            continue   # precondition without reordering: outer labels contiguous
                        rep.fail(f'{PID}:set_index_hierarchy:raises:{type(exc).__name__}', f'{desc} raises {exc!r:.160}', rp)
                        continue
                    rl, cl, cells = cells_by_pos(res)
                    keep = [x for x in clabels if not (drop and x in (c1, c2))]
                    if not rep.check(cl == keep and len(rl) == r, f'{PID}:set_index_hierarchy:column-or-shape-changed', f'{desc}: columns {cl}, {len(rl)} rows', rp):
                        continue
                    # each result row: label == (c1 cell, c2 cell) of one source row, and the rest of that source row travels with it
                    okh = True
                    used = []
                    for i, lab in enumerate(rl):
                        labc = tuple(ccell(x) for x in lab) if isinstance(lab, tuple) else (ccell(lab),)
                        cand = [p for p in range(r) if (ccell(clab(cols[clabels.index(c1)][p])), ccell(clab(cols[clabels.index(c2)][p]))) == labc]
                        if len(cand) != 1:
                            okh = False
                            break
                        p = cand[0]
                        used.append(p)
                        okh &= all(cells[x][i] == src[x][p] for x in keep)
                    okh &= sorted(used) == list(range(r)) and (reorder or used == list(range(r)))
                    rep.check(okh, f'{PID}:set_index_hierarchy:row-torn-or-label-wrong', f'{desc}: index {rl}, cells {cells}; source {src}', rp)
                    if okh and drop:
                        back, exc = observe(lambda: res.unset_index())
                        rep.count()
                        if exc is not None:
                            rep.fail(f'{PID}:unset_index:raises:{type(exc).__name__}', f'{desc}.unset_index() raises {exc!r:.160}', dict(rp, op='unset_index_h'))
                            continue
                        brl, bcl, bcells = cells_by_pos(back)
                        expc = [c1, c2] + keep
                        rep.check(bcl == expc and brl == list(range(r)) and all(bcells[x] == [src[x][p] for p in used] for x in expc), f'{PID}:unset_index:cell-or-label-changed',
                                  f'{desc}.unset_index(): columns {bcl} index {brl} cells {bcells}; expected {expc} with the rows {used} of {src}', dict(rp, op='unset_index_h'))
        # ---- relabel_shift_in / relabel_shift_out, axis 0
        if r:
            keysets = [[c] for c in clabels] + ([[clabels[0], clabels[-1]], [clabels[-1], clabels[0]]] if m >= 2 else [])
            for ks in keysets:
                rp = dict(base_rp, op='shift_in', cols=ks)
                key = ks if len(ks) > 1 else ks[0]
                res, exc = observe(lambda: f.relabel_shift_in(key, axis=0))
                rep.count(distinct_key=('I', kinds, r, lay, 'shift_in', tuple(ks)))
                desc = f'relabel_shift_in({key!r}) on kinds {kinds} rows {r} layout {lay}'
                treeok = True   # the flat index r2, r1, r0 is unique, so every extension is a valid hierarchy
                if exc is not None:
                    rep.fail(f'{PID}:relabel_shift_in:raises:{type(exc).__name__}', f'{desc} raises {exc!r:.160}', rp)
                    continue
                rl, cl, cells = cells_by_pos(res)
                keep = [x for x in clabels if x not in ks]
                # loc-selection with a list keeps the order of the frame's columns
                ks_sel = [x for x in clabels if x in ks] if len(ks) > 1 else ks
                exp_rl = [tuple([ccell(ilabels[i])] + [src[x][i] for x in ks_sel]) for i in range(r)]
                got_rl = [tuple(ccell(x) for x in lab) for lab in rl]
                ok = rep.check(got_rl == exp_rl or got_rl == [tuple([ccell(ilabels[i])] + [src[x][i] for x in ks]) for i in range(r)], f'{PID}:relabel_shift_in:labels-differ-from-moved-cells',
                               f'{desc}: index {rl} != original label + moved cells {exp_rl}', rp)
                ok &= rep.check(cl == keep and all(cells[x] == src[x] for x in keep), f'{PID}:relabel_shift_in:cell-or-column-changed', f'{desc}: columns {cl} cells {cells}; source {src}', rp)
                if not ok:
                    continue
                depths0 = list(range(1, 1 + len(ks)))
                # the levels may be named in any order: every moved-out column must still hold the cells of its own level
                for depths in ([depths0] if len(depths0) == 1 else [depths0, depths0[::-1]]):
                    back, exc = observe(lambda: res.relabel_shift_out(depths if len(depths) > 1 else depths[0], axis=0))
                    rep.count()
                    if exc is not None:
                        rep.fail(f'{PID}:relabel_shift_out:raises:{type(exc).__name__}', f'{desc}.relabel_shift_out({depths}) raises {exc!r:.160}', dict(rp, op='shift_out'))
                        continue
                    brl, bcl, bcells = cells_by_pos(back)
                    rep.check(brl == ilabels and sorted(bcl) == sorted(clabels) and all(bcells[x] == src[x] for x in clabels if x in bcells), f'{PID}:relabel_shift_out:round-trip-changed-cells',
                              f'{desc}.relabel_shift_out({depths}): index {brl} columns {bcl} cells {bcells}; source index {ilabels} {src}', dict(rp, op='shift_out'))
            # ---- axis 1: a row becomes a column level and comes back
            for ri in sorted({0, r - 1}):
                rlab = ilabels[ri]
                rp = dict(base_rp, op='shift_in_axis1', row=rlab)
                res, exc = observe(lambda: f.relabel_shift_in(rlab, axis=1))
                rep.count(distinct_key=('I', kinds, r, lay, 'shift_in1', rlab))
                desc = f'relabel_shift_in({rlab!r}, axis=1) on kinds {kinds} rows {r} layout {lay}'
                rowcells = [src[c][ri] for c in clabels]
                if exc is not None:
                    if len({repr((c, x)) for c, x in zip(clabels, rowcells)}) == m:
                        rep.fail(f'{PID}:relabel_shift_in:axis1:raises:{type(exc).__name__}', f'{desc} raises {exc!r:.160}', rp)
                    continue
                rl, cl, cells = cells_by_pos(res)
                exp_cl = [(c, x) for c, x in zip(clabels, rowcells)]
                got_cl = [tuple(ccell(x) if k else x for k, x in enumerate(lab)) for lab in cl]
                keep_rows = [i for i in range(r) if i != ri]
                ok = rep.check(got_cl == exp_cl and rl == [ilabels[i] for i in keep_rows], f'{PID}:relabel_shift_in:axis1:labels-differ-from-moved-cells', f'{desc}: columns {cl} index {rl}; expected {exp_cl}', rp)
                if ok:
                    ok &= rep.check(all(list(cells[lab]) == [src[c][i] for i in keep_rows] for lab, c in zip(cl, clabels)), f'{PID}:relabel_shift_in:axis1:cell-changed', f'{desc}: cells {cells}; source {src}', rp)
                if not ok:
                    continue
                back, exc = observe(lambda: res.relabel_shift_out(1, axis=1))
                rep.count()
                if exc is not None:
                    rep.fail(f'{PID}:relabel_shift_out:axis1:raises:{type(exc).__name__}', f'{desc}.relabel_shift_out(1, axis=1) raises {exc!r:.160}', dict(rp, op='shift_out_axis1'))
                    continue
                brl, bcl, bcells = cells_by_pos(back)
                order = [ri] + keep_rows
                rep.check(bcl == clabels and brl == [ilabels[i] for i in order] and all(bcells[c] == [src[c][i] for i in order] for c in clabels), f'{PID}:relabel_shift_out:axis1:round-trip-changed-cells',
                          f'{desc}.relabel_shift_out(1, axis=1): index {brl} columns {bcl} cells {bcells}; source {ilabels} {src}', dict(rp, op='shift_out_axis1'))


# ---------------------------------------------------------------------------------------------

def _interleave(cases):
    cases = list(cases)
    n = len(cases)
    stride = 7919
    while n and np.gcd(stride, n) != 1:
        stride += 2
    return [cases[(i * stride) % n] for i in range(n)] if n else []


EVAL = {'P': eval_pivot_case, 'K': eval_stack_case, 'J': eval_join_case, 'I': eval_index_case}
CASES = {'pivot': pivot_cases, 'stack': stack_cases, 'join': join_cases, 'index': index_cases}

RULE = ('pivot: every assignment of 1..3 rows (every 4th of 4 rows; thorough: all 4-row, a 16th of 5-row) to the 4 (index, column) key pairs x 10 field configurations '
        '(1-2 index, 0-2 column, 1-2 data fields) x 7 functions (None, np.sum, np.max, a counting function, 3 function maps) x fill value rotating over {nan, 0, "-", None} '
        'x block layouts (all for the default function); stack/unstack: 6 column label sets of depth 1-3 x index depth 1-2 x rows 1-3 x every depth selection x 3 fill values x layouts; '
        'join: every pair of key vectors over {1,2,3} of length 1..3 (and an empty side) x 6 variants (column keys, overlapping index labels, templates + int fill, two keys + str fill, '
        'left / both keys from the index) x inner/left/right/outer x composite_index on/off x left layouts; '
        'index moves: every kind assignment over {int, str, float, bool, repeated-contiguous, repeated-scattered} to 1..3 columns (an 18th of the 4-column ones; thorough: a third) x rows {0,2,3} x layouts x '
        'set_index/unset_index, set_index_hierarchy (drop, reorder), relabel_shift_in/out on both axes.  Non-trivial: the reference result has >= 1 row.')
BOUND = 'source rows <= 4 (pivot, thorough 5), <= 3 per side (join, thorough 4), columns <= 4 for exhaustive layouts (6 with sampled layouts), label depth <= 3'


def _run(repo, task, areas, name):
    tier = task.get('tier', 'quick')
    rep = Rep(name, task, rule=RULE + ' Added: pivot configurations whose data fields are listed in an order other than their column order.', bound=BOUND, budget_s=38 if tier == 'quick' else 580)
    cases = []
    for a in areas:
        cases += list(CASES[a](tier))
    for case in rep.shard(_interleave(cases)):
        try:
            EVAL[case[0]](rep, case, tier)
        except Exception:
            rep.error(f'harness fault in case {case!r}')
    return rep.done()


def run(repo, task):
    return _run(repo, task, ('pivot', 'stack', 'join', 'index'), 'C20-reshape-join')


def run_pivot(repo, task):
    return _run(repo, task, ('pivot', 'stack'), 'C20-pivot')


def run_join(repo, task):
    return _run(repo, task, ('join',), 'C20-join')


def run_index(repo, task):
    return _run(repo, task, ('index',), 'C20-index-moves')


def replay(repo, rp):
    """re-run the recorded case and report whether the same failure key shows up again"""
    case = rp['case']
    case = tuple(tuple(x) if isinstance(x, list) else x for x in case)
    rep = Rep('C20-replay', dict(tier='thorough'), rule='', bound='')
    rep.cap = 10 ** 6
    try:
        EVAL[case[0]](rep, case, 'thorough')
    except Exception as e:
        return dict(outcome='pass', note=f'harness fault during replay: {e!r}')
    want = rp.get('key')
    hit = (want in rep.failures) if want else bool(rep.failures)
    return dict(outcome='fail' if hit else 'pass', failing_keys=sorted(rep.failures)[:25], what=(rep.failures.get(want) or {}).get('what') if want else None)
