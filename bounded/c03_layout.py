"""C03 bounded stand-in: structural coherence of a Frame and block-layout transparency.
Contract (run-time, real package): for every Frame f built from the same per-column arrays under
every block layout,  shape == (len(index), len(columns));  f.dtypes[j] == dtype of column j;
values[i,j] == iloc[i,j] == iter_array == iter_element == to_pairs;  and op(f_layoutA) == op(f_layoutB)
(labels, per-column values, per-column dtypes, exception class) for every op in the catalogue."""
from __future__ import annotations
import itertools
import numpy as np
from .common import Report, layouts_dtype_safe, frame_from, same_cell, _cell

COLS = {
    'i': lambda r: np.arange(r, dtype=np.int64) * 3 - 2,
    'f': lambda r: np.array([1.5, np.nan, -2.0][:r], dtype=np.float64),
    'b': lambda r: np.array([True, False, True][:r], dtype=bool),
    'U': lambda r: np.array(['a', 'bb', ''][:r], dtype='<U2'),
    'O': lambda r: np.array([None, 'x', 3][:r], dtype=object),
    'j': lambda r: (np.arange(r, dtype=np.int32) * 5 - 1),
    'g': lambda r: np.array([0.5, 2.0, np.nan][:r], dtype=np.float32),
}


def col(kind, rows, j):
    """column j of the given kind: columns of one kind differ by position (so a value taken from the wrong column shows)"""
    a = COLS[kind](rows)
    if j == 0 or rows == 0:
        return a
    if kind in 'ij':
        return a + np.array(10 * j, dtype=a.dtype)
    if kind in 'fg':
        return np.roll(a, j) + np.array(j, dtype=a.dtype)
    if kind == 'U':
        return np.array([x + str(j) for x in np.roll(a, j).tolist()], dtype='<U2')
    return np.roll(a, j)


def canon(x):
    import static_frame as sf
    if isinstance(x, sf.Frame):
        cols = []
        for j in range(x.shape[1]):
            a = x._blocks._extract_array_column(j) if hasattr(x._blocks, '_extract_array_column') else x._blocks._extract_array(None, j)
            cols.append((str(a.dtype), tuple(_cell(v) for v in (a.tolist() if a.dtype.kind != 'O' else list(a)))))
        return ('Frame', type(x).__name__, tuple(map(_lab, x.index.values.tolist())), tuple(map(_lab, x.columns.values.tolist())), tuple(cols), x.name)
    if isinstance(x, sf.Series):
        a = x.values
        return ('Series', tuple(map(_lab, x.index.values.tolist())), str(a.dtype), tuple(_cell(v) for v in (a.tolist() if a.dtype.kind != 'O' else list(a))), x.name)
    if isinstance(x, np.ndarray):
        return ('ndarray', x.shape, str(x.dtype), tuple(_cell(v) for v in x.ravel().tolist()))
    if isinstance(x, (tuple, list)):
        return (type(x).__name__, tuple(canon(i) for i in x))
    return ('scalar', _cell(x))


def _lab(v):
    return tuple(v) if isinstance(v, list) else v


def _bound_frame(f, base):
    """a Frame of non-uniform float bounds with f's labels, laid out as one 1-D column followed by one 2-D block (whatever f's own layout is)"""
    rows, m = f.shape
    cols = [np.array([base + 2 * i + 0.25 * j for i in range(rows)], dtype=np.float64) for j in range(m)]
    lay = ((1, True),) + (((m - 1, False),) if m > 1 else ())
    return frame_from(cols, lay, index=list(f.index.values), column_labels=list(f.columns.values))


def ops():
    import static_frame as sf
    o = {
        'values': lambda f: f.values,
        'dtypes': lambda f: f.dtypes,
        'T': lambda f: f.T,
        'rev_cols': lambda f: f.iloc[:, ::-1],
        'rev_rows': lambda f: f.iloc[::-1],
        'col0': lambda f: f.iloc[:, 0],
        'col_last': lambda f: f.iloc[:, -1],
        'row0': lambda f: f.iloc[0],
        'cols_list': lambda f: f.iloc[:, [f.shape[1] - 1, 0]],
        'cols_step2': lambda f: f.iloc[:, ::2],
        'cols_bool': lambda f: f.iloc[:, np.arange(f.shape[1]) % 2 == 0],
        'elem': lambda f: f.iloc[0, f.shape[1] - 1],
        'isna': lambda f: f.isna(),
        'fillna': lambda f: f.fillna(0),
        'dropna': lambda f: f.dropna(axis=1, condition=np.any),
        'astype_obj': lambda f: f.astype(object),
        'astype_col0_str': lambda f: f.astype[f.columns.values[0]](str),
        'shift': lambda f: f.shift(1, 1, fill_value=None),
        'roll': lambda f: f.roll(1, 1),
        'drop0': lambda f: f.drop.iloc[:, 0],
        'drop_last': lambda f: f.drop.iloc[:, -1],
        'assign_elem': lambda f: f.assign.iloc[0, 0]('zz'),
        'assign_col': lambda f: f.assign.iloc[:, -1](-1),
        'mask': lambda f: f.mask.iloc[:, 1:],
        'eq_self': lambda f: f == f,
        'mul': lambda f: f * 2,
        'sum0': lambda f: f.sum(axis=0),
        'sum1': lambda f: f.sum(axis=1),
        'any1': lambda f: f.any(axis=1),
        'max0': lambda f: f.max(axis=0),
        'sort_col0': lambda f: f.sort_values(f.columns.values[0], ascending=False),
        'to_pairs': lambda f: f.to_pairs(0),
        'reindex_cols': lambda f: f.reindex(columns=list(f.columns.values[::-1]) + ['new'], fill_value=0),
        'count0': lambda f: f.count(axis=0),
        'iter_array1': lambda f: tuple(f.iter_array(axis=1)),
        'iter_series0': lambda f: tuple(f.iter_series(axis=0)),
        'iter_tuple1': lambda f: tuple(f.iter_tuple(axis=1)),
        'equals_go': lambda f: f.to_frame_go().equals(f, compare_class=False),
        'insert': lambda f: sf.Frame.from_concat((f.iloc[:, :1], f.iloc[:, 1:]), axis=1),
        'relabel': lambda f: f.relabel(columns=lambda c: c + '_'),
        'iloc_rows_bool': lambda f: f.iloc[np.arange(f.shape[0]) % 2 == 0],
        'unique': lambda f: f.unique(),
        'cumsum': lambda f: f.cumsum(axis=1),
        'transpose_sum': lambda f: f.T.sum(axis=0),
        'isin': lambda f: f.isin((1, 'a', True)),
        'clip': lambda f: f.clip(lower=0),
        # bounds given as a Frame whose own block layout is fixed (one 1-D column, then one wide block): the frame's blocks and the bound blocks overlap differently per layout
        'clip_frame_upper': lambda f: f.clip(upper=_bound_frame(f, 0.5)),
        'clip_frame_both': lambda f: f.clip(lower=_bound_frame(f, -100.5), upper=_bound_frame(f, 1.5)),
        'drop_duplicated': lambda f: f.drop_duplicated(axis=1),
        'bloc': lambda f: f.bloc[f.isna()],
        'via_T_values': lambda f: f.T.values,
        'ffill1': lambda f: f.fillna_forward(axis=1),
        'bfill1': lambda f: f.fillna_backward(axis=1),
        'ffill1_limit1': lambda f: f.fillna_forward(1, axis=1),
        'bfill1_limit1': lambda f: f.fillna_backward(1, axis=1),
        'ffill0': lambda f: f.fillna_forward(axis=0),
        'bfill0': lambda f: f.fillna_backward(axis=0),
        'fill_leading1': lambda f: f.fillna_leading(-7, axis=1),
        'fill_trailing1': lambda f: f.fillna_trailing(-7, axis=1),
        'fill_leading0': lambda f: f.fillna_leading(-7, axis=0),
        'fill_trailing0': lambda f: f.fillna_trailing(-7, axis=0),
    }
    return o


def enumerate_cases():
    for m in (1, 2, 3, 4):
        kinds_iter = itertools.product('ifbUO', repeat=m) if m <= 3 else [('i', 'i', 'f', 'f'), ('b', 'U', 'U', 'O'), ('i', 'i', 'i', 'i'), ('f', 'O', 'O', 'i'),
                                                                          ('f', 'i', 'i', 'f'), ('O', 'f', 'f', 'O'), ('f', 'f', 'i', 'i')]
        for kinds in kinds_iter:
            for rows in (0, 2, 3) if m <= 2 else (2,):
                yield (m, kinds, rows)


def run(repo, task):
    import static_frame as sf
    rep = Report('C03-layout', task,
                 rule='every dtype-kind assignment to m<=3 columns (4 selected for m=4) x rows in {0,2,3} x every dtype-safe block layout '
                      '(1-D/2-D), columns of one kind holding different data; a case is non-trivial when it has >= 2 layouts or a structural check on >= 1 cell',
                 bound=f'columns <= 4, rows <= 3, dtype kinds {{int64,float64,bool,<U2,object}}, {len(ops())} single-frame operations')
    catalogue = ops()
    for (m, kinds, rows) in rep.shard(enumerate_cases()):
        cols = [col(k, rows, j) for j, k in enumerate(kinds)]
        labels = [f'c{j}' for j in range(m)]
        index = [f'r{i}' for i in range(rows)]
        frames = []
        for lay in layouts_dtype_safe(cols):
            try:
                frames.append((lay, frame_from(cols, lay, index=index, column_labels=labels)))
            except Exception as e:
                rep.fail(f'C03:construct:{type(e).__name__}', f'Frame construction failed for kinds={kinds} layout={lay}: {e!r}',
                         dict(kinds=kinds, rows=rows, layout=lay))
        case = dict(kinds=''.join(kinds), rows=rows, layouts=len(frames))
        # structural coherence on every layout
        for lay, f in frames:
            rp = dict(kinds=''.join(kinds), rows=rows, layout=[list(x) for x in lay])
            rep.count(distinct_key=(kinds, rows, lay), sample=dict(case, layout=str(lay)))
            rep.check(f.shape == (len(f.index), len(f.columns)) == (rows, m), 'C03:shape', f'shape {f.shape} vs labels ({len(f.index)},{len(f.columns)})', rp)
            try:
                dts = list(f.dtypes.values)
                rep.check(dts == [c.dtype for c in cols], 'C03:dtypes-mismatch', f'Frame.dtypes {dts} != column dtypes for kinds={kinds} layout={lay}', rp)
            except Exception as e:
                rep.fail(f'C03:dtypes-raises:{type(e).__name__}', f'Frame.dtypes raises {e!r} (kinds={kinds}, layout={lay})', dict(rp, op='dtypes'))
            try:
                v = f.values
                ok = v.shape == (rows, m)
                for i in range(rows):
                    for j in range(m):
                        a = cols[j][i]
                        ok = ok and same_cell(v[i, j], a) and same_cell(f.iloc[i, j], a)
                pairs = f.to_pairs(0)
                for j, (lab, items) in enumerate(pairs):
                    ok = ok and lab == labels[j] and all(same_cell(val, cols[j][i]) and il == index[i] for i, (il, val) in enumerate(items))
                for j, arr in enumerate(f.iter_array(axis=0)):
                    ok = ok and arr.dtype == cols[j].dtype and all(same_cell(arr[i], cols[j][i]) for i in range(rows))
                elems = list(f.iter_element())
                ok = ok and len(elems) == rows * m and all(same_cell(elems[i * m + j], cols[j][i]) for i in range(rows) for j in range(m))
                rep.check(ok, 'C03:cell-routes', f'values/iloc/to_pairs/iter_array/iter_element disagree with the source columns (kinds={kinds}, layout={lay})', dict(rp, op='cells'))
            except Exception as e:
                rep.fail(f'C03:cell-routes-raises:{type(e).__name__}', f'cell read raises {e!r} (kinds={kinds}, layout={lay})', dict(rp, op='cells'))
        # layout transparency
        if len(frames) >= 1:
            for opname, op in catalogue.items():
                outs = []
                for lay, f in frames:
                    try:
                        outs.append(canon(op(f)))
                    except Exception as e:
                        outs.append(('exc', type(e).__name__))
                rep.count()
                if len(set(map(repr, outs))) > 1:
                    k = [i for i, o in enumerate(outs) if repr(o) != repr(outs[0])][0]
                    cause = 'empty' if rows == 0 else ('object-column' if 'O' in kinds else ('str-column' if 'U' in kinds else ('bool-column' if 'b' in kinds else 'plain')))
                    rep.fail(f'C03:layout:{opname}:{cause}', f'op {opname} differs between layouts {frames[0][0]} and {frames[k][0]} for kinds={kinds} rows={rows}: {str(outs[0])[:200]} vs {str(outs[k])[:200]}',
                             dict(kinds=''.join(kinds), rows=rows, op=opname, layout_a=[list(x) for x in frames[0][0]], layout_b=[list(x) for x in frames[k][0]]))
    return rep.done()


BIN_PAIRS = [('iijff', 'iiiff'), ('ijf', 'iif'), ('jii', 'iii'), ('fgi', 'ffi'), ('iiff', 'iiff'), ('ijij', 'iiii'), ('fUU', 'fUU'), ('bbi', 'bib')]
BIN_OPS = {'add': lambda a, b: a + b, 'eq': lambda a, b: a == b, 'mul': lambda a, b: a * b, 'radd': lambda a, b: b + a, 'lt': lambda a, b: a < b}


def _bin_frames(kinds, rows, shift):
    cols = [col(k, rows, j + shift) for j, k in enumerate(kinds)]
    labels = [f'c{j}' for j in range(len(cols))]
    index = [f'r{i}' for i in range(rows)]
    return [(lay, frame_from(cols, lay, index=index, column_labels=labels)) for lay in layouts_dtype_safe(cols)]


def run_binary(repo, task):
    """a binary operator between two frames with the same labels gives the same result (or the same exception class)
    whatever the block layouts of the two operands are"""
    rep = Report('C03-layout-binary', task,
                 rule='two frames with equal labels (2 rows; 3-5 columns, adjacent columns of one dtype kind but different dtypes on the left, '
                      'e.g. int64,int64,int32,float64,float64) x every pair of dtype-safe block layouts x {+, *, ==, <, reflected +}; every pair is non-trivial',
                 bound=f'{len(BIN_PAIRS)} dtype assignments, rows = 2, columns <= 5, all layout pairs')
    tier = task.get('tier', 'quick')
    cases = [(ka, kb, opn) for ka, kb in BIN_PAIRS for opn in BIN_OPS]
    for ka, kb, opn in rep.shard(cases):
        try:
            fa, fb = _bin_frames(ka, 2, 0), _bin_frames(kb, 2, 1)
        except Exception:
            rep.error(f'binary harness {ka} {kb}')
            continue
        op = BIN_OPS[opn]
        first = None
        for la, a in fa:
            for lb, b in fb:
                try:
                    out = canon(op(a, b))
                except Exception as e:
                    out = ('exc', type(e).__name__)
                rep.count(distinct_key=(ka, kb, opn, la, lb))
                if first is None:
                    first = (out, la, lb)
                elif repr(out) != repr(first[0]):
                    rep.fail(f'C03:layout-binary:{opn}', f'{opn} of frames with dtypes {ka} and {kb} differs between layouts ({first[1]}, {first[2]}) and ({la}, {lb}): {str(first[0])[:200]} vs {str(out)[:200]}',
                             dict(binary=True, ka=ka, kb=kb, op=opn, layouts_a=[[list(x) for x in first[1]], [list(x) for x in first[2]]], layouts_b=[[list(x) for x in la], [list(x) for x in lb]]))
    return rep.done()


def replay(repo, rp):
    import static_frame as sf
    if rp.get('binary'):
        outs = []
        for la, lb in (rp['layouts_a'], rp['layouts_b']):
            ca = [col(k, 2, j) for j, k in enumerate(rp['ka'])]
            cb = [col(k, 2, j + 1) for j, k in enumerate(rp['kb'])]
            labels = [f'c{j}' for j in range(len(ca))]
            a = frame_from(ca, tuple(tuple(x) for x in la), index=['r0', 'r1'], column_labels=labels)
            b = frame_from(cb, tuple(tuple(x) for x in lb), index=['r0', 'r1'], column_labels=labels)
            try:
                outs.append(canon(BIN_OPS[rp['op']](a, b)))
            except Exception as e:
                outs.append(('exc', type(e).__name__))
        return dict(outcome='fail' if repr(outs[0]) != repr(outs[1]) else 'pass', a=str(outs[0])[:400], b=str(outs[1])[:400])
    kinds, rows = rp['kinds'], rp['rows']
    cols = [col(k, rows, j) for j, k in enumerate(kinds)]
    labels = [f'c{j}' for j in range(len(cols))]
    index = [f'r{i}' for i in range(rows)]
    def mk(lay):
        return frame_from(cols, tuple(tuple(x) for x in lay), index=index, column_labels=labels)
    if 'layout_a' in rp:
        op = ops()[rp['op']]
        outs = []
        for lay in (rp['layout_a'], rp['layout_b']):
            try:
                outs.append(canon(op(mk(lay))))
            except Exception as e:
                outs.append(('exc', type(e).__name__))
        return dict(outcome='fail' if repr(outs[0]) != repr(outs[1]) else 'pass', a=str(outs[0])[:400], b=str(outs[1])[:400])
    f = mk(rp['layout'])
    try:
        if rp.get('op') == 'dtypes':
            d = list(f.dtypes.values)
            return dict(outcome='pass' if d == [c.dtype for c in cols] else 'fail', dtypes=str(d))
        v = f.values
        return dict(outcome='pass', note='cells readable; re-run the check for the full comparison', shape=str(v.shape))
    except Exception as e:
        return dict(outcome='fail', raised=repr(e))
