"""C10 bounded stand-in: equals is a content equivalence; SeriesHE / FrameHE honour the hash contract.

Every container is built from a plain-data *model* (class, name, labels, label dtype, values, value dtypes, block layout).
A *family* is a list of models that differ from a base model in exactly one aspect (one cell, NaN/None/NaT on one or both
sides, one label, label order, a dtype, the name, the class, the block layout, the length).  For every ordered pair of a family
and each of the 16 option combinations the real `a.equals(b, **opts)` is compared with

  * the reference predicate evaluated on the two models (taken from the property statement):  same shape, same labels in the same
    order, pairwise equal values where NaN/NaT at the same position are equal exactly when skipna; compare_name / compare_dtype /
    compare_class each add exactly that requirement.  Where the statement does not decide (None next to NaN, None next to None
    without skipna, index name / index dtype / index class under the corresponding compare_ option) the predicate is *unknown*
    and only the algebraic laws are checked;
  * reflexivity (same object and a second build of the same model), symmetry (a,b)/(b,a), transitivity over all triples.

`run_he` checks ==, !=, hash and set / dict membership of the HE classes against equals on the same families."""
from __future__ import annotations
import itertools
import numpy as np
from .common import Report, layouts_dtype_safe, frame_from

PID = 'C10'
NAN = float('nan')
OPT_NAMES = ('compare_name', 'compare_dtype', 'compare_class', 'skipna')


def _nat():
    return np.datetime64('NaT', 'D')


def _is_nan(v):
    if isinstance(v, (float, np.floating)):
        return v != v
    if isinstance(v, (np.datetime64, np.timedelta64)):
        return bool(np.isnat(v))
    return False


# =============================================================================================
# models

def idx_model(labels, dtype, cls='Index', name=None):
    return dict(cls=cls, labels=list(labels), dtype=dtype, name=name)


def ih_model(labels, cls='IndexHierarchy', name=None, inner=None, ctor='labels'):
    """inner: per-depth dtype override (None = inferred); ctor 'labels' | 'product' (same labels, different internal tree sharing)"""
    return dict(cls=cls, labels=[tuple(l) for l in labels], dtype='IH', name=name, inner=inner, ctor=ctor)


def series_model(values, dtype, index, cls='Series', name='n'):
    return dict(kind='Series', cls=cls, name=name, index=index, cols=[dict(values=list(values), dtype=dtype)])


def frame_model(cols, index, columns, cls='Frame', name='n', layout=None):
    return dict(kind='Frame', cls=cls, name=name, index=index, columns=columns,
                cols=[dict(values=list(v), dtype=d) for v, d in cols], layout=layout)


def index_model(labels, dtype, cls='Index', name='n'):
    return dict(kind='Index', cls=cls, name=name, index=idx_model(labels, dtype, cls, name))


def hier_model(labels, cls='IndexHierarchy', name='n', inner=None, ctor='labels'):
    return dict(kind='IH', cls=cls, name=name, index=ih_model(labels, cls, name, inner, ctor))


def bus_model(frames, name='n', cls='Bus'):
    return dict(kind='Bus', cls=cls, name=name, frames=list(frames))


def _array(values, dtype):
    if dtype.startswith('datetime64'):
        return np.array(values, dtype=dtype)
    a = np.empty(len(values), dtype=dtype)
    for i, v in enumerate(values):
        a[i] = v
    return a


def build_index(m):
    import static_frame as sf
    if m['dtype'] == 'IH':
        cls = getattr(sf, m['cls'])
        depth = len(m['labels'][0]) if m['labels'] else 2
        if m.get('ctor') == 'product':
            levels = [list(dict.fromkeys(l[d] for l in m['labels'])) for d in range(depth)]
            ih = cls.from_product(*levels, name=m['name'])
        else:
            ih = cls.from_labels(m['labels'], name=m['name'], depth_reference=depth)
        return ih
    cls = getattr(sf, m['cls'])
    if m['dtype'] == 'auto':
        # the positional index a default-constructed container gets (labels are the positions, no label map)
        from static_frame.core.util import PositionsAllocator
        assert list(m['labels']) == list(range(len(m['labels'])))
        return cls(PositionsAllocator.get(len(m['labels'])), loc_is_iloc=True, name=m['name'], dtype=np.dtype(np.int64))
    arr = _array(m['labels'], m['dtype'])
    if getattr(cls, '_DTYPE', None) is not None:
        return cls(arr, name=m['name'])
    return cls(arr, name=m['name'], dtype=arr.dtype)


def build(m):
    import static_frame as sf
    k = m['kind']
    if k in ('Index', 'IH'):
        return build_index(m['index'])
    if k == 'Series':
        c = m['cols'][0]
        return getattr(sf, m['cls'])(_array(c['values'], c['dtype']), index=build_index(m['index']), name=m['name'], own_index=True)
    if k == 'Frame':
        arrays = [_array(c['values'], c['dtype']) for c in m['cols']]
        lay = m['layout'] if m['layout'] is not None else tuple((1, True) for _ in arrays)
        lay = tuple(tuple(x) for x in lay)
        return frame_from(arrays, lay, index=build_index(m['index']), column_labels=build_index(m['columns']), cls=getattr(sf, m['cls']), name=m['name'])
    if k == 'Bus':
        return sf.Bus.from_frames([build(f) for f in m['frames']], name=m['name'])
    raise ValueError(k)


# =============================================================================================
# reference predicate on models.  Three-valued: True / False / None (statement does not decide)

def cell_eq(a, b, skipna):
    na, nb = _is_nan(a), _is_nan(b)
    if na and nb:
        return bool(skipna)
    if na or nb:
        other = b if na else a
        if other is None:
            return None if skipna else False      # is None a "missing value"?  not decided by the statement
        return False
    if a is None and b is None:
        return True if skipna else None
    if a is None or b is None:
        return False
    try:
        return bool(a == b)
    except Exception:
        return False


def _and3(vals):
    """three-valued conjunction"""
    out = True
    for v in vals:
        if v is False:
            return False
        if v is None:
            out = None
    return out


def labels_eq(ia, ib, opts, top=False):
    """index-level comparison; `top` = the index IS the compared container (its name / dtype / class are the container's own)"""
    if len(ia['labels']) != len(ib['labels']):
        return False
    if ia['dtype'] == 'IH' or ib['dtype'] == 'IH':
        if ia['dtype'] != ib['dtype']:
            return False
        if ia['labels'] and ib['labels'] and len(ia['labels'][0]) != len(ib['labels'][0]):
            return False
        cells = [cell_eq(x, y, opts['skipna']) for la, lb in zip(ia['labels'], ib['labels']) for x, y in zip(la, lb)]
    else:
        cells = [cell_eq(x, y, opts['skipna']) for x, y in zip(ia['labels'], ib['labels'])]
    parts = [_and3(cells)]
    unknown_or = (lambda cond: None if cond else True)
    if opts['compare_name'] and ia['name'] != ib['name']:
        parts.append(False if top else None)
    _dt = lambda d: 'int64' if d == 'auto' else d      # an auto-generated positional index holds int64 labels
    same_dtype = _dt(ia['dtype']) == _dt(ib['dtype']) and ia.get('inner') == ib.get('inner')
    if opts['compare_dtype'] and not same_dtype:
        parts.append(False if (top and ia['dtype'] != 'IH') else None)
    if opts['compare_class'] and ia['cls'] != ib['cls']:
        parts.append(False if top else None)
    return _and3(parts)


def expected(ma, mb, opts):
    k = ma['kind']
    if k in ('Index', 'IH'):
        return labels_eq(ma['index'], mb['index'], opts, top=True)
    if k == 'Bus':
        parts = [len(ma['frames']) == len(mb['frames'])]
        if parts[0]:
            for fa, fb in zip(ma['frames'], mb['frames']):
                parts.append(cell_eq(fa['name'], fb['name'], opts['skipna']))      # the Bus labels are the frame names
                sub = dict(opts)
                parts.append(expected(fa, fb, sub))
        if opts['compare_name'] and ma['name'] != mb['name']:
            parts.append(False)
        if opts['compare_class'] and ma['cls'] != mb['cls']:
            parts.append(False)
        return _and3(parts)
    parts = []
    if len(ma['cols']) != len(mb['cols']) or any(len(x['values']) != len(y['values']) for x, y in zip(ma['cols'], mb['cols'])):
        return False
    parts.append(labels_eq(ma['index'], mb['index'], opts))
    if k == 'Frame':
        parts.append(labels_eq(ma['columns'], mb['columns'], opts))
    for ca, cb in zip(ma['cols'], mb['cols']):
        parts.append(_and3(cell_eq(x, y, opts['skipna']) for x, y in zip(ca['values'], cb['values'])))
        if opts['compare_dtype'] and ca['dtype'] != cb['dtype']:
            parts.append(False)
    if opts['compare_name'] and ma['name'] != mb['name']:
        parts.append(False)
    if opts['compare_class'] and ma['cls'] != mb['cls']:
        parts.append(False)
    return _and3(parts)


def diff_aspects(ma, mb):
    """names of the aspects in which two models differ (used for stable failure keys)"""
    out = set()

    def cells(xs, ys, what):
        for x, y in zip(xs, ys):
            nx, ny = _is_nan(x), _is_nan(y)
            if nx and ny:
                out.add(f'{what}-nan-both')
            elif nx or ny:
                out.add(f'{what}-none-vs-nan' if (x is None or y is None) else f'{what}-nan-one-sided')
            elif x is None and y is None:
                out.add(f'{what}-none-both')
            elif cell_eq(x, y, True) is not True:
                out.add(what)

    def idx(ia, ib, what):
        if len(ia['labels']) != len(ib['labels']):
            out.add('shape')
            return
        if ia['dtype'] == 'IH' and ib['dtype'] == 'IH':
            if sorted(map(repr, ia['labels'])) == sorted(map(repr, ib['labels'])) and ia['labels'] != ib['labels']:
                out.add(f'{what}-order')
            else:
                for la, lb in zip(ia['labels'], ib['labels']):
                    cells(la, lb, what)
            if ia.get('ctor') != ib.get('ctor'):
                out.add(f'{what}-tree')
        elif sorted(map(repr, ia['labels'])) == sorted(map(repr, ib['labels'])) and [repr(x) for x in ia['labels']] != [repr(x) for x in ib['labels']]:
            out.add(f'{what}-order')
        else:
            cells(ia['labels'], ib['labels'], what)
        if ia['dtype'] != ib['dtype'] or ia.get('inner') != ib.get('inner'):
            out.add(f'{what}-dtype' if {ia['dtype'], ib['dtype']} != {'auto', 'int64'} else f'{what}-auto-vs-explicit')
        if ia['name'] != ib['name']:
            out.add(f'{what}-name')
        if ia['cls'] != ib['cls']:
            out.add(f'{what}-class')

    k = ma['kind']
    if k in ('Index', 'IH'):
        idx(ma['index'], mb['index'], 'label')
        return out
    if k == 'Bus':
        if len(ma['frames']) != len(mb['frames']):
            out.add('shape')
        for fa, fb in zip(ma['frames'], mb['frames']):
            if fa['name'] != fb['name']:
                out.add('label')
            out |= {f'frame-{a}' for a in diff_aspects(fa, fb) if a != 'name'}
    else:
        if len(ma['cols']) != len(mb['cols']) or any(len(x['values']) != len(y['values']) for x, y in zip(ma['cols'], mb['cols'])):
            out.add('shape')
        idx(ma['index'], mb['index'], 'label')
        if k == 'Frame':
            idx(ma['columns'], mb['columns'], 'column')
            if ma.get('layout') != mb.get('layout'):
                out.add('layout')
        for ca, cb in zip(ma['cols'], mb['cols']):
            cells(ca['values'], cb['values'], 'cell')
            if ca['dtype'] != cb['dtype']:
                out.add('dtype')
    if ma['name'] != mb['name']:
        out.add('name')
    if ma['cls'] != mb['cls']:
        out.add('class')
    return out


# =============================================================================================
# families

def _variants_index(base_idx, alt_label, alt_dtype=None, alt_cls=None, nan_fill=None):
    """(tag, index model) variants of a 1-D index model"""
    out = []
    L = base_idx['labels']
    out.append(('label', dict(base_idx, labels=[alt_label] + L[1:])))
    out.append(('label-last', dict(base_idx, labels=L[:-1] + [alt_label])))
    if len(L) > 1:
        out.append(('order', dict(base_idx, labels=L[::-1])))
    if alt_dtype:
        out.append(('idx-dtype', dict(base_idx, dtype=alt_dtype)))
    if alt_cls:
        out.append(('idx-class', dict(base_idx, cls=alt_cls)))
    out.append(('idx-name', dict(base_idx, name='other')))
    return out


def fam_series(valkind):
    """Series families: valkind in f (NaN), O (None + NaN), M (NaT), i, U, b"""
    idx = idx_model(['a', 'b', 'c'], '<U1')
    base_vals, dtype, alt, nanlike, alt_dtype = {
        'f': ([1.0, NAN, 3.0], 'float64', 2.0, NAN, 'float32'),
        'O': ([1, None, NAN], 'object', 'x', NAN, None),
        'M': ([np.datetime64('2020-01-01'), _nat(), np.datetime64('2020-01-03')], 'datetime64[D]', np.datetime64('2021-05-05'), _nat(), 'datetime64[s]'),
        'i': ([1, 2, 3], 'int64', 7, None, 'float64'),
        'U': (['x', 'y', 'z'], '<U1', 'q', None, 'object'),
        'b': ([True, False, True], 'bool', False, None, 'object'),
    }[valkind]
    base = series_model(base_vals, dtype, idx)
    fam = [('base', base)]
    v = list(base_vals)
    fam.append(('cell0', series_model([alt] + v[1:], dtype, idx)))
    fam.append(('cell2', series_model(v[:2] + [alt], dtype, idx)))
    if valkind in ('f', 'M'):
        fam.append(('nan->value', series_model([v[0], alt, v[2]], dtype, idx)))
        fam.append(('value->nan', series_model([nanlike, v[1], v[2]], dtype, idx)))
        fam.append(('all-nan', series_model([nanlike] * 3, dtype, idx)))
    if valkind == 'O':
        fam.append(('none->value', series_model([1, 'x', NAN], dtype, idx)))
        fam.append(('none->nan', series_model([1, NAN, NAN], dtype, idx)))
        fam.append(('nan->none', series_model([1, None, None], dtype, idx)))
        fam.append(('nan->value', series_model([1, None, 5.0], dtype, idx)))
        fam.append(('value->nan', series_model([NAN, None, NAN], dtype, idx)))
        fam.append(('value->none', series_model([None, None, NAN], dtype, idx)))
    if valkind == 'f':
        fam.append(('as-object', series_model(v, 'object', idx)))
        fam.append(('nan->none', series_model([1.0, None, 3.0], 'object', idx)))
    if alt_dtype:
        fam.append(('dtype', series_model(v, alt_dtype, idx)))
    fam.append(('name', series_model(v, dtype, idx, name='other')))
    fam.append(('name-none', series_model(v, dtype, idx, name=None)))
    fam.append(('class', series_model(v, dtype, idx, cls='SeriesHE')))
    fam.append(('shorter', series_model(v[:2], dtype, idx_model(['a', 'b'], '<U1'))))
    for tag, im in _variants_index(idx, 'z', alt_dtype='object'):     # (Series / Frame only accept static indices: no index-class variant here)
        vals = v[::-1] if tag == 'order' else v
        fam.append((tag, series_model(vals, dtype, im)))
    return fam


def fam_series_labels(kind):
    """Series whose INDEX carries the special labels: float NaN labels, NaT labels, None labels, hierarchy"""
    vals, dtype = [1, 2, 3], 'int64'
    if kind == 'nanlabel':
        idx = idx_model([1.0, NAN, 3.0], 'float64')
        alts = [('label-nan->value', idx_model([1.0, 2.0, 3.0], 'float64')), ('label-nan-moved', idx_model([NAN, 2.0, 3.0], 'float64')),
                ('idx-dtype', idx_model([1.0, NAN, 3.0], 'object')), ('label', idx_model([9.0, NAN, 3.0], 'float64'))]
    elif kind == 'natlabel':
        d = [np.datetime64('2020-01-01'), _nat(), np.datetime64('2020-01-03')]
        idx = idx_model(d, 'datetime64[D]', cls='IndexDate')
        alts = [('label-nan->value', idx_model([d[0], np.datetime64('2020-01-02'), d[2]], 'datetime64[D]', cls='IndexDate')),
                ('idx-class', idx_model(d, 'datetime64[D]', cls='Index')),
                ('idx-dtype', idx_model(d, 'datetime64[s]', cls='IndexSecond')),
                ('label', idx_model([np.datetime64('1999-01-01'), _nat(), d[2]], 'datetime64[D]', cls='IndexDate'))]
    elif kind == 'nonelabel':
        idx = idx_model(['a', None, 3], 'object')
        alts = [('label-none->value', idx_model(['a', 'b', 3], 'object')), ('label', idx_model(['a', None, 4], 'object')),
                ('order', idx_model([3, None, 'a'], 'object'))]
    elif kind == 'datelabel':
        d = [np.datetime64('2020-01-01'), np.datetime64('2020-01-02'), np.datetime64('2020-01-03')]
        idx = idx_model(d, 'datetime64[D]', cls='IndexDate')
        # (an object index of datetime.date objects is deliberately not a variant: NumPy's own == between date, datetime64[D] and
        #  datetime64[s] is not transitive and datetime64 / date hash differently -- that would test NumPy scalars, not the package)
        alts = [('idx-class', idx_model(d, 'datetime64[D]', cls='Index')),
                ('idx-dtype', idx_model(d, 'datetime64[s]', cls='IndexSecond')),
                ('label', idx_model([d[0], d[1], np.datetime64('2020-01-04')], 'datetime64[D]', cls='IndexDate'))]
    elif kind == 'intlabel':
        idx = idx_model([1, 2, 3], 'int64')
        alts = [('idx-dtype', idx_model([1, 2, 3], 'float64')), ('idx-dtype-object', idx_model([1, 2, 3], 'object')), ('label', idx_model([1, 2, 4], 'int64')),
                ('order', idx_model([3, 2, 1], 'int64'))]
    elif kind == 'hier':
        idx = ih_model([('a', 1), ('a', 2), ('b', 1)])
        alts = [('label', ih_model([('a', 1), ('a', 3), ('b', 1)])), ('label-outer', ih_model([('a', 1), ('a', 2), ('c', 1)])),
                ('idx-name', ih_model([('a', 1), ('a', 2), ('b', 1)], name='other'))]
    else:
        raise ValueError(kind)
    fam = [('base', series_model(vals, dtype, idx))]
    for tag, im in alts:
        v = vals[::-1] if tag == 'order' else vals
        fam.append((tag, series_model(v, dtype, im)))
    fam.append(('cell0', series_model([9, 2, 3], dtype, idx)))
    fam.append(('name', series_model(vals, dtype, idx, name='other')))
    fam.append(('class', series_model(vals, dtype, idx, cls='SeriesHE')))
    return fam


def fam_frame(kind, tier):
    index = idx_model(['r0', 'r1'], '<U2')
    columns = idx_model(['a', 'b', 'c'], '<U1')
    if kind == 'fff':
        cols = [([1.0, NAN], 'float64'), ([2.5, 4.0], 'float64'), ([NAN, NAN], 'float64')]
        alt = 9.0
    elif kind == 'ifU':
        cols = [([1, 2], 'int64'), ([NAN, 4.0], 'float64'), (['x', 'y'], '<U1')]
        alt = 9
    elif kind == 'OMb':
        cols = [([None, NAN], 'object'), ([np.datetime64('2020-01-01'), _nat()], 'datetime64[D]'), ([True, False], 'bool')]
        alt = 'q'
    elif kind == 'iii':
        cols = [([1, 2], 'int64'), ([3, 4], 'int64'), ([5, 6], 'int64')]
        alt = 9
    else:
        raise ValueError(kind)
    base = frame_model(cols, index, columns)
    fam = [('base', base)]

    def with_cell(j, i, v, dtype=None):
        c = [(list(vals), d) for vals, d in cols]
        c[j][0][i] = v
        if dtype:
            c[j] = (c[j][0], dtype)
        return frame_model(c, index, columns)

    fam.append(('cell00', with_cell(0, 0, alt)))
    fam.append(('cell12', with_cell(2, 1, alt if kind != 'OMb' else False)))
    # missing values on one / both sides
    for j, (vals, d) in enumerate(cols):
        for i, v in enumerate(vals):
            if _is_nan(v):
                repl = np.datetime64('2021-01-01') if d.startswith('datetime64') else 5.0
                fam.append((f'nan->value@{i},{j}', with_cell(j, i, repl)))
                break
    for j, (vals, d) in enumerate(cols):
        if d == 'float64' and not _is_nan(vals[0]):
            fam.append((f'value->nan@0,{j}', with_cell(j, 0, NAN)))
            break
    if kind == 'OMb':
        fam.append(('none->nan', with_cell(0, 0, NAN)))
        fam.append(('nan->none', with_cell(0, 1, None)))
        fam.append(('none->value', with_cell(0, 0, 'x')))
    # dtype
    if kind in ('ifU', 'iii'):
        c = [(list(vals), d) for vals, d in cols]
        c[0] = (c[0][0], 'float64')
        fam.append(('dtype', frame_model(c, index, columns)))
    if kind == 'fff':
        c = [(list(vals), d) for vals, d in cols]
        c[1] = (c[1][0], 'object')
        fam.append(('dtype', frame_model(c, index, columns)))
    fam.append(('name', frame_model(cols, index, columns, name='other')))
    fam.append(('class', frame_model(cols, index, columns, cls='FrameGO')))
    fam.append(('class-he', frame_model(cols, index, columns, cls='FrameHE')))
    fam.append(('shorter', frame_model([(v[:1], d) for v, d in cols], idx_model(['r0'], '<U2'), columns)))
    fam.append(('narrower', frame_model(cols[:2], index, idx_model(['a', 'b'], '<U1'))))
    for tag, im in _variants_index(index, 'zz', alt_dtype='object'):
        c = [(v[::-1], d) for v, d in cols] if tag == 'order' else cols
        fam.append(('row-' + tag, frame_model(c, im, columns)))
    for tag, im in _variants_index(columns, 'z', alt_dtype='object'):
        if tag == 'order':
            continue
        fam.append(('col-' + tag, frame_model(cols, index, im)))
    fam.append(('col-order', frame_model(cols[::-1], index, dict(columns, labels=columns['labels'][::-1]))))
    # block layouts of the base content
    arrays = [_array(v, d) for v, d in cols]
    lays = [l for l in layouts_dtype_safe(arrays) if l != tuple((1, True) for _ in cols)]
    if tier == 'quick':
        lays = lays[:1] + lays[-2:] if len(lays) > 3 else lays
    for n, lay in enumerate(dict.fromkeys(lays)):
        fam.append((f'layout{n}', frame_model(cols, index, columns, layout=[list(x) for x in lay])))
    return fam


def fam_frame_hier():
    """Frame with a hierarchical index and hierarchical columns"""
    index = ih_model([('a', 1), ('a', 2)])
    columns = ih_model([('x', 'p'), ('y', 'p')])
    cols = [([1, 2], 'int64'), ([1.5, NAN], 'float64')]
    fam = [('base', frame_model(cols, index, columns))]
    fam.append(('cell', frame_model([([1, 9], 'int64'), ([1.5, NAN], 'float64')], index, columns)))
    fam.append(('nan->value', frame_model([([1, 2], 'int64'), ([1.5, 7.0], 'float64')], index, columns)))
    fam.append(('row-label', frame_model(cols, ih_model([('a', 1), ('a', 3)]), columns)))
    fam.append(('col-label', frame_model(cols, index, ih_model([('x', 'p'), ('y', 'q')]))))
    fam.append(('row-label-outer', frame_model(cols, ih_model([('a', 1), ('b', 2)]), columns)))
    fam.append(('row-idx-name', frame_model(cols, ih_model([('a', 1), ('a', 2)], name='other'), columns)))
    fam.append(('name', frame_model(cols, index, columns, name='other')))
    fam.append(('class', frame_model(cols, index, columns, cls='FrameHE')))
    fam.append(('layout', frame_model(cols, index, columns, layout=[[1, False], [1, False]])))
    return fam


def fam_index(kind):
    base, alt, alt_dtype, alt_cls = {
        'U': (idx_model(['a', 'b', 'c'], '<U1', name='n'), 'z', 'object', 'IndexGO'),
        'i': (idx_model([1, 2, 3], 'int64', name='n'), 9, 'float64', 'IndexGO'),
        'f': (idx_model([1.0, NAN, 3.0], 'float64', name='n'), 9.0, 'object', 'IndexGO'),
        'O': (idx_model(['a', None, NAN], 'object', name='n'), 'z', None, 'IndexGO'),
        'M': (idx_model([np.datetime64('2020-01-01'), _nat(), np.datetime64('2020-01-03')], 'datetime64[D]', cls='IndexDate', name='n'),
              np.datetime64('1999-01-01'), None, 'Index'),
        'auto': (idx_model([0, 1, 2], 'auto', name='n'), 9, None, 'IndexGO'),
    }[kind]
    fam = [('base', dict(kind='Index', cls=base['cls'], name='n', index=base))]
    if kind == 'auto':
        def add_(tag, im):
            fam.append((tag, dict(kind='Index', cls=im['cls'], name=im['name'], index=im)))
        add_('explicit-same-labels', dict(base, dtype='int64'))
        add_('label', dict(base, dtype='int64', labels=[9, 1, 2]))
        add_('order', dict(base, dtype='int64', labels=[2, 1, 0]))
        add_('class', dict(base, cls='IndexGO'))
        add_('name', dict(base, name='other'))
        add_('name-none', dict(base, name=None))
        add_('shorter', dict(base, labels=[0, 1]))
        add_('name+explicit', dict(base, dtype='int64', name='other'))
        return fam

    def add(tag, im):
        fam.append((tag, dict(kind='Index', cls=im['cls'], name=im['name'], index=im)))
    L = base['labels']
    add('label', dict(base, labels=[alt] + L[1:]))
    add('label-last', dict(base, labels=L[:-1] + [alt]))
    add('order', dict(base, labels=L[::-1]))
    if alt_dtype:
        add('dtype', dict(base, dtype=alt_dtype))
    add('class', dict(base, cls=alt_cls))
    add('name', dict(base, name='other'))
    add('name-none', dict(base, name=None))
    add('shorter', dict(base, labels=L[:2]))
    if kind in ('f', 'M'):
        add('nan->value', dict(base, labels=[L[0], alt, L[2]]))
        add('nan-moved', dict(base, labels=[L[1], alt, L[2]]))
    if kind == 'O':
        add('none->value', dict(base, labels=['a', 'b', NAN]))
        add('nan->value', dict(base, labels=['a', None, 5.0]))
        add('nan->none2', dict(base, labels=['a', 'b', None]))
    if kind == 'M':
        add('dtype', dict(base, dtype='datetime64[s]', cls='IndexSecond'))
    return fam


def fam_hier(kind):
    if kind == 'Ui':
        L = [('a', 1), ('a', 2), ('b', 1), ('b', 2)]
        alt_inner, alt_outer = 3, 'c'
    elif kind == 'Uf':
        L = [('a', 1.0), ('a', NAN), ('b', 1.0), ('b', NAN)]
        alt_inner, alt_outer = 3.0, 'c'
    elif kind == 'depth3':
        L = [('a', 1, 'x'), ('a', 1, 'y'), ('a', 2, 'x'), ('b', 1, 'x')]
        alt_inner, alt_outer = 7, 'c'
    else:
        raise ValueError(kind)
    fam = [('base', hier_model(L))]

    def repl(pos, depth, v):
        out = [list(l) for l in L]
        out[pos][depth] = v
        return [tuple(l) for l in out]
    fam.append(('label-inner', hier_model(repl(1, 1, alt_inner))))
    fam.append(('label-inner-last', hier_model(repl(len(L) - 1, len(L[0]) - 1, 'q' if kind == 'depth3' else alt_inner))))
    fam.append(('label-outer', hier_model(repl(len(L) - 1, 0, alt_outer))))
    fam.append(('order', hier_model(L[2:] + L[:2] if kind != 'depth3' else [L[3]] + L[:3])))
    fam.append(('name', hier_model(L, name='other')))
    fam.append(('class', hier_model(L, cls='IndexHierarchyGO')))
    fam.append(('shorter', hier_model(L[:-1])))
    if kind in ('Ui', 'Uf'):
        fam.append(('tree', hier_model(L, ctor='product')))
    if kind == 'Ui':
        fam.append(('inner-dtype', hier_model([(a, float(b)) for a, b in L], inner='float64')))      # same labels held as float64
    if kind == 'Uf':
        fam.append(('nan->value', hier_model(repl(1, 1, 5.0))))
        fam.append(('nan->value-both', hier_model([('a', 1.0), ('a', 5.0), ('b', 1.0), ('b', 5.0)])))
    return fam


def fam_bus():
    index = idx_model(['r0', 'r1'], '<U2')
    columns = idx_model(['a', 'b'], '<U1')
    f1 = frame_model([([1, 2], 'int64'), ([1.5, NAN], 'float64')], index, columns, name='f1')
    f2 = frame_model([([5, 6], 'int64'), ([7.5, 8.5], 'float64')], index, columns, name='f2')
    f2_cell = frame_model([([5, 9], 'int64'), ([7.5, 8.5], 'float64')], index, columns, name='f2')
    f1_nan = frame_model([([1, 2], 'int64'), ([1.5, 3.0], 'float64')], index, columns, name='f1')
    f2_lab = frame_model([([5, 6], 'int64'), ([7.5, 8.5], 'float64')], idx_model(['r0', 'zz'], '<U2'), columns, name='f2')
    f2_ren = dict(f2, name='f3')
    f2_dt = frame_model([([5.0, 6.0], 'float64'), ([7.5, 8.5], 'float64')], index, columns, name='f2')
    f2_go = dict(f2, cls='FrameGO')
    return [('base', bus_model([f1, f2])), ('frame-cell', bus_model([f1, f2_cell])), ('frame-nan->value', bus_model([f1_nan, f2])),
            ('frame-label', bus_model([f1, f2_lab])), ('label', bus_model([f1, f2_ren])), ('frame-dtype', bus_model([f1, f2_dt])),
            ('frame-class', bus_model([f1, f2_go])), ('name', bus_model([f1, f2], name='other')), ('order', bus_model([f2, f1])),
            ('shorter', bus_model([f1]))]


def families(tier):
    out = {}
    for k in 'fOMiUb':
        out[f'Series-{k}'] = lambda k=k: fam_series(k)
    for k in ('nanlabel', 'natlabel', 'nonelabel', 'datelabel', 'intlabel', 'hier'):
        out[f'Series-{k}'] = lambda k=k: fam_series_labels(k)
    for k in ('fff', 'ifU', 'OMb', 'iii'):
        out[f'Frame-{k}'] = lambda k=k: fam_frame(k, tier)
    out['Frame-hier'] = fam_frame_hier
    for k in ('U', 'i', 'f', 'O', 'M', 'auto'):
        out[f'Index-{k}'] = lambda k=k: fam_index(k)
    for k in ('Ui', 'Uf', 'depth3'):
        out[f'IH-{k}'] = lambda k=k: fam_hier(k)
    out['Bus'] = fam_bus
    return out


def key_aspects(ma, mb, opts):
    """aspects named in a failure key: only those that bear on the result under `opts`; a one-sided NaN/NaT dominates"""
    asp = diff_aspects(ma, mb)
    rel = set()
    for a in asp:
        if a == 'name' or a.endswith('-name'):
            if opts['compare_name']:
                rel.add(a)
        elif a == 'dtype' or a.endswith('-dtype'):
            if opts['compare_dtype']:
                rel.add(a)
        elif a == 'class' or a.endswith('-class'):
            if opts['compare_class']:
                rel.add(a)
        elif a.endswith('-nan-both'):
            if not opts['skipna']:
                rel.add(a)
        elif a.endswith('-none-both'):
            if not opts['skipna']:
                rel.add(a)
        elif a in ('layout',) or a.endswith('-tree'):
            continue
        else:
            rel.add(a)
    rel = {a.replace('-none-vs-nan', '-nan-one-sided') for a in rel}      # None opposite NaN is a one-sided NaN as well
    one_sided = sorted(a for a in rel if a.endswith('-nan-one-sided'))
    if one_sided:
        return '+'.join(one_sided)
    if not rel:
        rest = sorted(a for a in asp if a == 'layout' or a.endswith('-tree'))
        return '+'.join(rest) or 'equal-content'
    return '+'.join(sorted(rel))


def all_opts():
    for bits in itertools.product((False, True), repeat=4):
        yield dict(zip(OPT_NAMES, bits))


def _opt_tag(opts):
    return ','.join(f'{k}={int(v)}' for k, v in opts.items())


# =============================================================================================
# equals laws

def _call_equals(a, b, opts):
    try:
        return a.equals(b, **opts), None
    except Exception as e:
        return None, e


def check_family(fname, opts, tier, only=None):
    """returns list of (key, what, replay-extra); `only` = (i, j[, k]) restricts to one pair / triple (used by replay)"""
    fam = families(tier)[fname]()
    kind = fname.split('-')[0]
    n = len(fam)
    objs = [build(m) for _, m in fam]
    twins = [build(m) for _, m in fam]       # second build of the same model: reflexivity on distinct objects
    res = {}
    fails = []
    ot = _opt_tag(opts)
    evaluations = 0

    def desc(i, j):
        return f'{fname} [{fam[i][0]}] vs [{fam[j][0]}] ({ot})'
    pairs = [(i, j) for i in range(n) for j in range(n)]
    if only is not None:
        idxs = set(only)
        pairs = [(i, j) for i, j in pairs if i in idxs and j in idxs]
    for i, j in pairs:
        a = objs[i]
        b = twins[j] if i == j else objs[j]
        r, exc = _call_equals(a, b, opts)
        evaluations += 1
        asp = key_aspects(fam[i][1], fam[j][1], opts)
        if exc is not None:
            fails.append((f'{PID}:{kind}:equals-raises:{asp}', f'{desc(i, j)}: equals raises {exc!r}', dict(i=i, j=j)))
            continue
        if not isinstance(r, (bool, np.bool_)):
            fails.append((f'{PID}:{kind}:not-bool', f'{desc(i, j)}: equals returned {type(r).__name__}', dict(i=i, j=j)))
            continue
        res[(i, j)] = bool(r)
        exp = expected(fam[i][1], fam[j][1], opts)
        if exp is not None and bool(r) != exp:
            fails.append((f'{PID}:{kind}:predicate:{"true" if exp else "false"}-expected:{asp}',
                          f'{desc(i, j)}: equals returned {bool(r)}, the stated predicate gives {exp} (models differ in: {asp})', dict(i=i, j=j)))
    # reflexive on the same object
    for i in (range(n) if only is None else sorted(set(only))):
        r, exc = _call_equals(objs[i], objs[i], opts)
        evaluations += 1
        if exc is not None or r is not True and r is not np.True_:
            fails.append((f'{PID}:{kind}:not-reflexive', f'{fname} [{fam[i][0]}] ({ot}): x.equals(x) gives {r!r} {exc!r}', dict(i=i, j=i)))
    # symmetric
    for (i, j), r in res.items():
        if i < j and (j, i) in res and res[(j, i)] != r:
            asp = key_aspects(fam[i][1], fam[j][1], opts)
            fails.append((f'{PID}:{kind}:asymmetric:{asp}', f'{desc(i, j)}: a.equals(b) is {r} but b.equals(a) is {res[(j, i)]}', dict(i=i, j=j)))
    # transitive
    if only is None or len(only) == 3:
        for i, j, k in itertools.permutations(range(n) if only is None else sorted(set(only)), 3):
            if res.get((i, j)) and res.get((j, k)) and res.get((i, k)) is False:
                asp = key_aspects(fam[i][1], fam[k][1], opts)
                fails.append((f'{PID}:{kind}:intransitive:{asp}',
                              f'{fname} ({ot}): [{fam[i][0]}]=[{fam[j][0]}] and [{fam[j][0]}]=[{fam[k][0]}] but [{fam[i][0]}]!=[{fam[k][0]}]', dict(i=i, j=j, k=k)))
    return fails, evaluations, n


def run_equals(repo, task):
    tier = task.get('tier', 'quick')
    rep = Report('C10-equals', task,
                 rule='families of containers differing from a base in exactly one aspect (cell, NaN/None/NaT one-sided or both, label, label order, '
                      'value dtype, label dtype, name, index name, class, index class, block layout, length) x every ordered pair (incl. two builds of the '
                      'same model) x all 16 combinations of compare_name/compare_dtype/compare_class/skipna; transitivity over every triple; '
                      'every (family, options, pair) is counted as non-trivial',
                 bound='Series (6 value kinds, 6 label kinds incl. NaN/NaT/None/date/hierarchical labels) 3 cells; Frame 2x3 (4 dtype mixes, '
                       'dtype-safe layouts); Index 5 kinds; IndexHierarchy depth 2-3; Bus of 2 Frames; <= 26 variants per family')
    fams = families(tier)
    items = [(fname, opts) for fname in fams for opts in all_opts()]
    for fname, opts in rep.shard(items):
        try:
            fails, ev, n = check_family(fname, opts, tier)
        except Exception:
            rep.error(f'equals harness {fname} {opts}')
            continue
        ot = _opt_tag(opts)
        for e in range(ev):
            rep.count(distinct_key=(fname, ot, e), sample=dict(family=fname, opts=opts, variants=n))
        for key, what, extra in fails:
            rep.fail(key, what, dict(area='equals', family=fname, opts=opts, tier=tier, **extra))
    return rep.done()


# =============================================================================================
# hash contract of the HE classes

def _to_he(m):
    if m['kind'] == 'Series':
        return dict(m, cls='SeriesHE')
    if m['kind'] == 'Frame':
        return dict(m, cls='FrameHE')
    return None


HE_OPTS = dict(compare_name=True, compare_dtype=False, compare_class=False, skipna=True)


def check_he_family(fname, tier, only=None):
    fam = [(t, _to_he(m)) for t, m in families(tier)[fname]() if t not in ('class', 'class-he')]
    kind = fname.split('-')[0] + 'HE'
    objs = [build(m) for _, m in fam]
    plain = [build(dict(m, cls=m['kind'])) for _, m in fam]     # the ordinary (non-HE) class with the same content
    n = len(fam)
    fails, evaluations = [], 0
    eqm = {}
    hashes = []
    for i, o in enumerate(objs):
        try:
            hashes.append(hash(o))
        except Exception as e:
            hashes.append(None)
            if only is None or i in only:
                idxkind = 'hierarchical-index' if fam[i][1]['index']['dtype'] == 'IH' else 'flat-index'
                fails.append((f'{PID}:{kind}:hash-raises:{idxkind}', f'{fname} [{fam[i][0]}]: hash() raises {e!r}', dict(i=i, j=i)))
    pairs = [(i, j) for i in range(n) for j in range(n)]
    if only is not None:
        pairs = [(i, j) for i, j in pairs if i in only and j in only]
    for i, j in pairs:
        a, b = objs[i], (build(fam[j][1]) if i == j else objs[j])
        evaluations += 1
        asp = key_aspects(fam[i][1], fam[j][1], HE_OPTS)
        d = f'{fname} HE [{fam[i][0]}] vs [{fam[j][0]}]'
        try:
            eq, ne = a == b, a != b
            ref = a.equals(b, **HE_OPTS)
            eq_plain = a == plain[j]
        except Exception as e:
            fails.append((f'{PID}:{kind}:eq-raises:{asp}', f'{d}: == / != raises {e!r}', dict(i=i, j=j)))
            continue
        if type(eq) is not bool or type(ne) is not bool:
            fails.append((f'{PID}:{kind}:eq-not-plain-bool', f'{d}: == returns {type(eq).__name__}, != returns {type(ne).__name__}', dict(i=i, j=j)))
            continue
        eqm[(i, j)] = eq
        if ne is not (not eq):
            fails.append((f'{PID}:{kind}:ne-not-negation', f'{d}: == is {eq} and != is {ne}', dict(i=i, j=j)))
        if eq != bool(ref):
            fails.append((f'{PID}:{kind}:eq-inconsistent-with-equals', f'{d}: == is {eq}, equals(compare_name=True) is {ref}', dict(i=i, j=j)))
        if type(eq_plain) is not bool or eq_plain != eq:
            fails.append((f'{PID}:{kind}:eq-depends-on-operand-class', f'{d}: HE == HE is {eq}, HE == plain container with the same content is {eq_plain!r}', dict(i=i, j=j)))
        exp = expected(fam[i][1], fam[j][1], HE_OPTS)
        if exp is not None and eq != exp:
            fails.append((f'{PID}:{kind}:eq-predicate:{"true" if exp else "false"}-expected:{asp}', f'{d}: == is {eq}, the stated predicate gives {exp}', dict(i=i, j=j)))
        # NaN / NaT labels: np.float64(nan) and np.datetime64('NaT') hash by object identity on Python >= 3.10, so whether
        # hash(a) == hash(b) depends on memory addresses (observed both ways); not checkable deterministically -- excluded here,
        # described in the report
        if any(_is_nan(x) for m in (fam[i][1], fam[j][1]) for x in m['index']['labels'] if m['index']['dtype'] != 'IH'):
            continue
        ha = hashes[i]
        if ha is None or hashes[j] is None:
            continue
        hb = hash(b)
        if eq and ha != hb:
            fails.append((f'{PID}:{kind}:equal-but-hash-differs:{asp}', f'{d}: a == b but hash(a) != hash(b)', dict(i=i, j=j)))
        try:
            s = {a, b}
            dct = {a: 'A'}
            found = dct.get(b, None)
            want = 1 if eq else 2
            sym = eqm.get((j, i), None)
            if (sym is None or sym == eq) and ha == hb and len(s) != want:
                fails.append((f'{PID}:{kind}:set-membership', f'{d}: len({{a, b}}) is {len(s)} with a == b {eq}', dict(i=i, j=j)))
            if eq and found != 'A':
                fails.append((f'{PID}:{kind}:dict-lookup', f'{d}: a == b but {{a: ..}}[b] is not found', dict(i=i, j=j)))
            if not eq and (b == a) is False and found is not None:
                fails.append((f'{PID}:{kind}:dict-lookup', f'{d}: a != b but {{a: ..}}[b] finds an entry', dict(i=i, j=j)))
        except Exception as e:
            fails.append((f'{PID}:{kind}:set-dict-raises', f'{d}: set / dict use raises {e!r}', dict(i=i, j=j)))
    for (i, j), r in eqm.items():
        if i < j and (j, i) in eqm and eqm[(j, i)] != r:
            asp = key_aspects(fam[i][1], fam[j][1], HE_OPTS)
            fails.append((f'{PID}:{kind}:eq-asymmetric:{asp}', f'{fname} HE [{fam[i][0]}] vs [{fam[j][0]}]: a == b is {r} but b == a is {eqm[(j, i)]}', dict(i=i, j=j)))
    return fails, evaluations, n


def run_he(repo, task):
    tier = task.get('tier', 'quick')
    rep = Report('C10-he', task,
                 rule='the Series and Frame families of run_equals rebuilt as SeriesHE / FrameHE x every ordered pair: ==, != plain bool and consistent with '
                      'equals(compare_name=True), symmetric, equal => same hash, hash() does not raise, set and dict membership follow ==',
                 bound='Series 3 cells (12 families), Frame 2x3 (4 families), <= 26 variants per family')
    fams = [f for f in families(tier) if f.startswith(('Series', 'Frame'))]
    for fname in rep.shard(fams):
        try:
            fails, ev, n = check_he_family(fname, tier)
        except Exception:
            rep.error(f'he harness {fname}')
            continue
        for e in range(ev):
            rep.count(distinct_key=(fname, e), sample=dict(family=fname, variants=n))
        for key, what, extra in fails:
            rep.fail(key, what, dict(area='he', family=fname, tier=tier, **extra))
    return rep.done()


# =============================================================================================

def _merge(name, parts):
    out = dict(parts[0])
    out['name'] = name
    out['evaluations'] = sum(p['evaluations'] for p in parts)
    out['distinct'] = sum(p['distinct'] for p in parts)
    out['rule'] = ' || '.join(p['rule'] for p in parts)
    out['bound'] = ' || '.join(p['bound'] for p in parts)
    out['samples'] = [s for p in parts for s in p['samples'][:2]]
    out['failures'] = [f for p in parts for f in p['failures']]
    out['wall_s'] = round(sum(p['wall_s'] for p in parts), 2)
    if any(p['status'] != 'ok' for p in parts):
        out['status'] = 'checker-fault'
        out['detail'] = '\n'.join(p.get('detail', '') for p in parts).strip()
    return out


def run(repo, task):
    return _merge('C10-equals+he', [run_equals(repo, task), run_he(repo, task)])


def replay(repo, rp):
    tier = rp.get('tier', 'quick')
    only = tuple(x for x in (rp.get('i'), rp.get('j'), rp.get('k')) if x is not None)
    try:
        if rp.get('area') == 'equals':
            fails, _, _ = check_family(rp['family'], rp['opts'], tier, only=only)
        elif rp.get('area') == 'he':
            fails, _, _ = check_he_family(rp['family'], tier, only=set(only))
        else:
            return dict(outcome='pass', note=f'unknown replay area {rp.get("area")!r}')
    except Exception as e:
        return dict(outcome='fail', raised=repr(e))
    return dict(outcome='fail' if fails else 'pass', failures=[dict(key=k, what=w) for k, w, _ in fails])
