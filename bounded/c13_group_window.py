"""C13 bounded stand-in: grouping partitions the container; windows cover it as specified.

Contract evaluated at run time on the real package (reference model taken from the property text):

GROUPS  for every grouping call  G = [(key_g, sub_g)]  produced by  Frame.iter_group[_items](key, axis),
Frame.iter_group_labels[_items](depth_level, axis), Series.iter_group[_items](), Series.iter_group_labels[_items](depth):
  * partition      : the member labels of all sub_g are exactly the labels of the grouped axis, each once;
  * cells/labels   : every member keeps its label, its cells (taken from the SOURCE arrays, not from the package)
                     and the labels of the other axis;
  * order          : inside a group the members appear in their original relative order;
  * key constancy  : every member of sub_g has group key key_g  (cell-wise, NaN == NaN, type sensitive);
  * distinct keys  : key_g are pairwise different;
  * apply          : iter_group(...).apply(func) has one entry per group, labelled key_g, holding func(sub_g)
                     (also iter_group_items(...).apply(func(k, g)) and apply_iter_items);
  * path agreement : the sort-and-slice path (typed element key, flat labels) and the unique/mask path (same key values
                     in an object column, a one-element list key, a hierarchical index on the frame) give the same
                     {key: member labels}.
WINDOWS for iter_window / iter_window_items / iter_window_array / iter_window_array_items on Series and Frame (both axes):
  iteration j has left = start_shift + j*step, size_j = size + j*size_increment, nominal window [left, left+size_j),
  extracted window = its intersection with [0, n), anchor position left+size_j-1+label_shift.  (label, window) is a *valid
  anchor* iff the anchor position is in [0, n) and (window_sized => extracted length == size_j) and window_valid(window).
  The yielded pairs must be an order-preserving selection of valid anchors (exact labels, exact cells), and must contain
  every valid anchor with a non-empty window (step == 0: for j <= n + max(0, -start_shift), the documented use being the
  expanding window; the property gives no termination rule for a window that never advances).
"""
from __future__ import annotations
import itertools
import numpy as np
from .common import Report, layouts, layouts_dtype_safe, frame_from, same_cell, _cell

PID = 'C13'

# ---------------------------------------------------------------------------------------------
# value alphabets (deliberately not in sorted order: first-appearance order != sorted order)

def _alpha(kind):
    D = np.datetime64
    return {
        'i': ([2, 1, 3], np.int64),
        'f': ([2.5, -1.0, 0.0], np.float64),
        'b': ([True, False], bool),
        'U': (['b', 'a', 'cc'], '<U2'),
        'M': ([D('2020-01-02'), D('2020-01-01'), D('2021-05-05')], 'datetime64[D]'),
        'Oi': ([2, 1, 3], object),
        'Os': (['b', 'a', 'cc'], object),
        'Ox': ([1, 'a', None], object),              # not comparable -> string fallback inside the package
        'fn': ([1.0, float('nan')], np.float64),     # missing keys (typed)
        'Mn': ([D('2020-01-02'), D('NaT')], 'datetime64[D]'),
        'On': ([1.0, float('nan')], object),         # missing keys (object)
        'Oc': ([1, '1', 'a'], object),               # distinct keys with equal str()
        'Od': ([None, 'None', 'a'], object),         # distinct keys with equal str()
    }[kind]


TYPED = ('i', 'f', 'b', 'U', 'M', 'fn', 'Mn')


def _col(kind, vec):
    alpha, dt = _alpha(kind)
    if dt is object:
        a = np.empty(len(vec), dtype=object)
        for i, v in enumerate(vec):
            a[i] = alpha[v]
        return a
    return np.array([alpha[v] for v in vec], dtype=dt) if len(vec) else np.empty(0, dtype=dt)


def _other(kind, vec):
    """a second column of the same dtype as the key column (so that both may share a 2-D block)"""
    alpha, dt = _alpha(kind)
    return _col(kind, tuple((v + 1) % len(alpha) for v in vec))


def _is_missing(x):
    c = _cell(x)
    return c in ('NaN', 'NaT') or x is None


def _has_missing(k, multi):
    cells = k if multi else (k,)
    return any(c in ('NaN', 'NaT') for c in cells)


class Rep(Report):
    """Report whose failures carry their own key in the replay data (replay() looks for the same key again)"""
    def check(self, cond, key, what, replay=None):
        return super().check(cond, key, what, dict(replay or {}, key=key))


def kcell(x):
    """canonical hashable form of one key cell: NaN == NaN, NaT == NaT, int 1 == float 1.0 (a key column consolidated with a
    float column keeps its value, the property does not ask for the type), but bool/str/None/number never confused"""
    c = _cell(x)
    if isinstance(c, tuple) and c[0] in ('int', 'float'):
        return ('num', c[1])
    return c


def ckey(x):
    """canonical form of a group key: one key cell, or a tuple/list/array of key cells"""
    if isinstance(x, (tuple, list)):
        return tuple(kcell(v) for v in x)
    if isinstance(x, np.ndarray):
        return tuple(kcell(v) for v in (x.tolist() if x.dtype.kind != 'O' else list(x)))
    return kcell(x)


def _lab(v):
    if isinstance(v, np.ndarray):
        v = v.tolist()
    return tuple(v) if isinstance(v, list) else v


def _labels(index):
    return [_lab(v) for v in (index.values.tolist() if index.depth == 1 else [tuple(r) for r in index.values.tolist()])]


def _cells_eq(a, b):
    return len(a) == len(b) and all(same_cell(x, y) for x, y in zip(a, b))


# ---------------------------------------------------------------------------------------------
# normalised view of a grouping result

class Src:
    """source description: members of the grouped axis with label, cells (from the source arrays) and reference key"""
    def __init__(self, labels, cells, other, keys):
        self.labels, self.cells, self.other, self.keys = labels, cells, other, keys
        self.pos = {l: i for i, l in enumerate(labels)}


def norm_frame_group(g, axis):
    cols = list(g.iter_array(axis=0))   # per-column arrays: no cross-column consolidation (NaT/None, int/float) in the way
    if axis == 0:
        return _labels(g.index), [tuple(c[r] for c in cols) for r in range(g.shape[0])], _labels(g.columns)
    return _labels(g.columns), [tuple(c) for c in cols], _labels(g.index)


def norm_series_group(g):
    return _labels(g.index), [(x,) for x in g.values], []


def check_groups(rep, items, src, norm, area, klass, rp, multi):
    """items: list of (group key, sub container) as produced by the package.  Returns {ckey: tuple(labels)} or None"""
    sfx = ':missing-key' if any(_has_missing(k, multi) for k in src.keys) else ''
    base = f'{PID}:{area}:{klass}'
    seen, gkeys, out, ok = [], [], {}, True
    for gk, g in items:
        labels, cells, other = norm(g)
        ck = ckey(gk)
        if multi and not isinstance(ck, tuple):
            ck = (ck,)
        gkeys.append(ck)
        out.setdefault(ck, [])
        ok &= rep.check(other == src.other, f'{base}:other-axis-labels-changed{sfx}',
                        f'group {gk!r}: labels of the other axis {other} != {src.other}', rp)
        last = -1
        for l, c in zip(labels, cells):
            p = src.pos.get(l)
            if p is None:
                ok &= rep.fail(f'{base}:label-not-in-source{sfx}', f'group {gk!r} holds label {l!r} that is not a label of the source', rp)
                continue
            seen.append(p)
            out[ck].append(l)
            ok &= rep.check(_cells_eq(c, src.cells[p]), f'{base}:cells-changed{sfx}',
                            f'group {gk!r}, member {l!r}: cells {c} != source cells {src.cells[p]}', rp)
            ok &= rep.check(p > last, f'{base}:order-not-kept{sfx}', f'group {gk!r}: member {l!r} (source position {p}) follows position {last}', rp)
            last = max(last, p)
            ok &= rep.check(src.keys[p] == ck, f'{base}:key-not-constant{sfx}',
                            f'group labelled {gk!r} contains member {l!r} whose key is {src.keys[p]}', rp)
    ok &= rep.check(sorted(seen) == list(range(len(src.labels))), f'{base}:not-a-partition{sfx}',
                    f'member positions over all groups {sorted(seen)} != 0..{len(src.labels) - 1}', rp)
    ok &= rep.check(len(set(gkeys)) == len(gkeys), f'{base}:duplicate-group-keys{sfx}',
                    f'group keys are not pairwise distinct: {gkeys}', rp)
    return {k: tuple(v) for k, v in out.items()}, sfx


def observe(fn):
    try:
        return list(fn()), None
    except Exception as e:  # raised by the operation under test
        return None, e


# ---------------------------------------------------------------------------------------------
# GROUP cases

def _vecs(a, ns):
    for n in ns:
        yield from itertools.product(range(a), repeat=n)


def group_cases(tier):
    q = tier == 'quick'
    ns = (0, 1, 2, 3, 4) if q else (0, 1, 2, 3, 4, 5)
    # A: one key column, axis 0
    for kind in ('i', 'f', 'b', 'U', 'M', 'Oi', 'Os', 'Ox', 'fn', 'Mn', 'On', 'Oc', 'Od'):
        a = len(_alpha(kind)[0])
        for vec in _vecs(a, ns):
            yield ('A', kind, vec)
    # B: two key columns, axis 0
    for kind2 in ('i', 'U', 'f', 'Os', 'fn'):
        for n in ((1, 2, 3) if q else (1, 2, 3, 4)):
            for vec in itertools.product(range(4), repeat=n):
                yield ('B', kind2, vec)
        if q:
            for vec in itertools.islice(itertools.product(range(4), repeat=4), 0, 256, 5):
                yield ('B', kind2, vec)
    # C: axis 1 (group columns by the values of one or two rows)
    for kind in ('i', 'f', 'U', 'b', 'Oi', 'mix', 'fn'):
        a = 2 if kind in ('b', 'fn') else 3
        for vec in _vecs(a, (1, 2, 3, 4)):
            yield ('C', kind, vec)
    # D: label-depth grouping on hierarchical (and flat) indices, both axes, Frame and Series
    outer, inner = ('b', 'a'), (2, 1, 3)
    prod = [(o, i) for o in outer for i in inner]
    for r in (1, 2, 3, 4) if q else (1, 2, 3, 4, 5, 6):
        for sub in itertools.combinations(range(len(prod)), r):
            yield ('D', 2, sub)
    prod3 = list(itertools.product(('b', 'a'), (2, 1), ('y', 'x')))
    for r in (1, 2, 3, 4) if q else (1, 2, 3, 4, 5):
        for sub in itertools.combinations(range(len(prod3)), r):
            yield ('D', 3, sub)
    for n in (0, 1, 3):
        yield ('D', 1, tuple(range(n)))
    # E: Series.iter_group over values
    for kind in ('i', 'f', 'b', 'U', 'M', 'Oi', 'Os', 'Ox', 'fn', 'On', 'Oc'):
        a = len(_alpha(kind)[0])
        for vec in _vecs(a, ns):
            yield ('E', kind, vec)
    # F: longer inputs (NumPy's unstable sorts only differ from stable ones above 16 elements)
    for kind in ('i', 'f', 'U', 'b', 'Oi'):
        for n in (40, 67):
            yield ('F', kind, n)


def _apply_checks(rep, node_values, node_items, items, area, klass, rp, sfx, ident):
    """apply over groups: one result per group labelled by its key"""
    base = f'{PID}:{area}:{klass}'
    exp = [(ckey(k), ident(g)) for k, g in items]
    if len({e[0] for e in exp}) != len(exp):
        return   # precondition of the apply contract ("labelled by its key"): group keys pairwise distinct (checked separately)
    for name, call in (('apply', lambda: list(node_values().apply(ident).items())),
                       ('apply-items', lambda: list(node_items().apply(lambda k, g: ident(g)).items())),
                       ('apply_iter_items', lambda: list(node_values().apply_iter_items(ident))),
                       ('apply_iter', lambda: list(zip((k for k, _ in items), node_values().apply_iter(ident))))):
        got, exc = observe(call)
        rep.count()
        if exc is not None:
            rep.fail(f'{base}:apply-raises:{type(exc).__name__}{sfx}', f'{name} over groups labelled {[k for k, _ in items]!r:.200} raises {exc!r}', dict(rp, sub=name))
            continue
        gotn = [(ckey(k), v) for k, v in got]
        rep.check(gotn == exp, f'{base}:apply-result-mislabelled{sfx}',
                  f'{name}: (label, result) pairs {gotn} != one result per group labelled by its key {exp}', dict(rp, sub=name))


def _ident(g):
    return '|'.join(str(_lab(l)) for l in (g.index.values.tolist()))


def _ident_cols(g):
    return '|'.join(str(_lab(l)) for l in (g.columns.values.tolist()))


def eval_group_case(rep, case, tier='quick'):
    import static_frame as sf
    fam = case[0]
    if fam in ('A', 'F'):
        if fam == 'A':
            _, kind, vec = case
            vec = tuple(vec)
        else:
            _, kind, n = case
            a = len(_alpha(kind)[0])
            vec = tuple((i * 7 + i // 5) % a for i in range(n))
        n = len(vec)
        k = _col(kind, vec)
        p = np.arange(n, dtype=np.int64) * 10
        qq = _other(kind, vec)
        s = np.array([f'r{i}' for i in range(n)], dtype='<U3')
        index = [f'L{i}' for i in range(n)][::-1]   # labels not sorted
        colsets = (('k',), ('k', 'p'), ('p', 'k', 'q', 's')) if fam == 'A' else (('p', 'k', 'q', 's'),)
        pool = dict(k=k, p=p, q=qq, s=s)
        refkeys = [kcell(x) for x in k]
        for cs in colsets:
            cols = [pool[c] for c in cs]
            lays = list(layouts_dtype_safe(cols))
            if fam == 'F' or (tier == 'quick' and n == 4 and len(cs) == 4):
                lays = lays[::5]
            src = Src(index, [tuple(c[i] for c in cols) for i in range(n)], list(cs), refkeys)
            src1 = Src(index, src.cells, list(cs), [(x,) for x in refkeys])
            klass = 'typed-key' if kind in TYPED else 'object-key'
            for li, lay in enumerate(lays):
                rp = dict(case=list(case), colset=list(cs), layout=[list(x) for x in lay])
                f = frame_from(cols, lay, index=index, column_labels=list(cs))
                # element key
                items, exc = observe(lambda: f.iter_group_items('k'))
                rep.count(distinct_key=('A', kind, vec, cs, lay) if n else None, sample=dict(rp, groups=None if items is None else len(items)))
                part = None
                if exc is not None:
                    rep.fail(f'{PID}:frame.group.axis0:{klass}:raises:{type(exc).__name__}', f'iter_group_items("k") raises {exc!r} for keys {k.tolist()}', rp)
                else:
                    part, sfx = check_groups(rep, items, src, lambda g: norm_frame_group(g, 0), 'frame.group.axis0', klass, rp, False)
                    vals, exc2 = observe(lambda: f.iter_group('k'))
                    rep.check(exc2 is None and [norm_frame_group(g, 0)[0] for g in vals] == [norm_frame_group(g, 0)[0] for _, g in items],
                              f'{PID}:frame.group.axis0:{klass}:iter_group-differs-from-items', f'iter_group yields other groups than iter_group_items ({exc2!r})', rp)
                    if li == 0:
                        _apply_checks(rep, lambda: f.iter_group('k'), lambda: f.iter_group_items('k'), items, 'frame.group.axis0', klass, rp, sfx, _ident)
                # one-element list key (generic path; keys are 1-tuples)
                items1, exc = observe(lambda: f.iter_group_items(['k']))
                rep.count()
                part1 = None
                if exc is not None:
                    rep.fail(f'{PID}:frame.group.axis0:key-list:raises:{type(exc).__name__}', f'iter_group_items(["k"]) raises {exc!r} for keys {k.tolist()}', dict(rp, sub='list'))
                else:
                    part1, sfx1 = check_groups(rep, items1, src1, lambda g: norm_frame_group(g, 0), 'frame.group.axis0', 'key-list', dict(rp, sub='list'), True)
                # path agreement: typed element key (sort path) vs list key / object column / hierarchical index (unique-mask path)
                if kind in TYPED and part is not None:
                    sfxa = ':missing-key' if kind in ('fn', 'Mn') else ''
                    if part1 is not None:
                        rep.count()
                        rep.check({(kk,): v for kk, v in part.items()} == part1, f'{PID}:frame.group.axis0:paths-disagree:element-vs-list-key{sfxa}',
                                  f'group by "k" gives {part}, group by ["k"] gives {part1}', dict(rp, sub='agree-list'))
                    if li == 0:
                        ko = np.empty(n, dtype=object)
                        ko[:] = k.tolist()        # the same key values as Python objects in an object column
                        fo = frame_from([ko if c == 'k' else pool[c] for c in cs], tuple((1, True) for _ in cs), index=index, column_labels=list(cs))
                        io, exc = (None, None) if kind == 'Mn' else observe(lambda: fo.iter_group_items('k'))   # NaT has no object counterpart
                        rep.count()
                        if kind == 'Mn':
                            pass
                        elif exc is None:
                            po = {}
                            for gk, g in io:
                                po.setdefault(kcell(gk), []).extend(_labels(g.index))
                            po = {kk: tuple(v) for kk, v in po.items()}
                            rep.check(po == part, f'{PID}:frame.group.axis0:paths-disagree:typed-vs-object-column{sfxa}',
                                      f'typed key column gives {part}; the same keys in an object column give {po}', dict(rp, sub='agree-object'))
                        else:
                            rep.fail(f'{PID}:frame.group.axis0:object-key:raises:{type(exc).__name__}', f'grouping the object-cast key column raises {exc!r}', dict(rp, sub='agree-object'))
                        if n:
                            fh = f.relabel(index=sf.IndexHierarchy.from_labels([('x', l) for l in index]))
                            ih_, exc = observe(lambda: fh.iter_group_items('k'))
                            rep.count()
                            if exc is None:
                                ph = {}
                                for gk, g in ih_:
                                    ph.setdefault(kcell(gk), []).extend(l[1] for l in _labels(g.index))
                                ph = {kk: tuple(v) for kk, v in ph.items()}
                                rep.check(ph == part, f'{PID}:frame.group.axis0:paths-disagree:flat-vs-hierarchical-index{sfxa}',
                                          f'flat index gives {part}; same frame under a depth-2 index gives {ph}', dict(rp, sub='agree-hier'))
                            else:
                                rep.fail(f'{PID}:frame.group.axis0:hier-index:raises:{type(exc).__name__}', f'grouping under a hierarchical index raises {exc!r}', dict(rp, sub='agree-hier'))
        return

    if fam == 'B':
        _, kind2, vec = case
        n = len(vec)
        k1 = np.array([(2, 1)[v // 2] for v in vec], dtype=np.int64)
        k2 = _col(kind2, tuple(v % 2 for v in vec))
        p = np.arange(n, dtype=np.int64) * 10
        index = [f'L{i}' for i in range(n)][::-1]
        cs = ('k1', 'p', 'k2')
        cols = [k1, p, k2]
        cells = [tuple(c[i] for c in cols) for i in range(n)]
        lays = list(layouts_dtype_safe(cols))
        for order in (('k1', 'k2'), ('k2', 'k1')):
            ka = dict(k1=k1, k2=k2)
            refkeys = [tuple(kcell(ka[o][i]) for o in order) for i in range(n)]
            src = Src(index, cells, list(cs), refkeys)
            for li, lay in enumerate(lays if tier != 'quick' else lays[::2]):
                rp = dict(case=list(case), order=list(order), layout=[list(x) for x in lay])
                f = frame_from(cols, lay, index=index, column_labels=list(cs))
                items, exc = observe(lambda: f.iter_group_items(list(order)))
                rep.count(distinct_key=('B', kind2, vec, order, lay), sample=dict(rp, groups=None if items is None else len(items)))
                if exc is not None:
                    rep.fail(f'{PID}:frame.group.axis0:key-list:raises:{type(exc).__name__}', f'iter_group_items({list(order)}) raises {exc!r}', rp)
                    continue
                _, sfx = check_groups(rep, items, src, lambda g: norm_frame_group(g, 0), 'frame.group.axis0', 'key-list', rp, True)
                if li == 0:
                    _apply_checks(rep, lambda: f.iter_group(list(order)), lambda: f.iter_group_items(list(order)), items, 'frame.group.axis0', 'key-list', rp, sfx, _ident)
        return

    if fam == 'C':
        _, kind, vec = case
        m = len(vec)
        if kind == 'mix':   # int and str columns -> object row dtype -> generic path
            row0 = [([2, 1, 3][v] if j % 2 == 0 else ['b', 'a', 'cc'][v]) for j, v in enumerate(vec)]
            cols = [np.array([row0[j], (j + 1) * 10, row0[j]], dtype=np.int64 if j % 2 == 0 else '<U2') if j % 2 == 0
                    else np.array([row0[j], f'r{j}', row0[j]], dtype='<U2') for j in range(m)]
            row2 = row0
        else:
            alpha, dt = _alpha(kind)
            row0 = [alpha[v] for v in vec]
            row2 = [alpha[(v + (j % 2)) % len(alpha)] for j, v in enumerate(vec)]
            fillers = {'i': 7, 'f': 0.5, 'U': 'zz', 'b': True, 'Oi': 'w', 'fn': 3.0}
            cols = []
            for j in range(m):
                a = np.empty(3, dtype=dt)
                a[0], a[1], a[2] = row0[j], fillers[kind], row2[j]
                cols.append(a)
        labels = [f'c{j}' for j in range(m)][::-1]
        index = ['r0', 'r1', 'r2']
        cells = [tuple(cols[j]) for j in range(m)]
        klass = 'object-row' if kind in ('mix', 'Oi') else 'typed-row'
        lays = list(layouts_dtype_safe(cols))
        if tier == 'quick' and m == 4:
            lays = lays[::3]
        for li, lay in enumerate(lays):
            f = frame_from(cols, lay, index=index, column_labels=labels)
            for key, multi in (('r0', False), (['r0', 'r2'], True), (['r0'], True)):
                kl = klass + (':key-list' if multi else '')
                if multi:
                    refkeys = [tuple(kcell(cols[j][{'r0': 0, 'r2': 2}[r]]) for r in key) for j in range(m)]
                else:
                    refkeys = [kcell(cols[j][0]) for j in range(m)]
                src = Src(labels, cells, index, refkeys)
                rp = dict(case=list(case), key=key, layout=[list(x) for x in lay])
                items, exc = observe(lambda: f.iter_group_items(key, axis=1))
                rep.count(distinct_key=('C', kind, vec, str(key), lay), sample=dict(rp, groups=None if items is None else len(items)))
                if exc is not None:
                    rep.fail(f'{PID}:frame.group.axis1:{kl}:raises:{type(exc).__name__}', f'iter_group_items({key!r}, axis=1) raises {exc!r} on a {f.shape} frame', rp)
                    continue
                part, sfx = check_groups(rep, items, src, lambda g: norm_frame_group(g, 1), 'frame.group.axis1', kl, rp, multi)
                if li == 0:
                    _apply_checks(rep, lambda: f.iter_group(key, axis=1), lambda: f.iter_group_items(key, axis=1), items, 'frame.group.axis1', kl, rp, sfx, _ident_cols)
                if not multi and klass == 'typed-row' and li == 0:
                    fo = f.astype(object)
                    io, exc = observe(lambda: fo.iter_group_items(key, axis=1))
                    rep.count()
                    if exc is None:
                        po = {}
                        for gk, g in io:
                            po.setdefault(kcell(gk), []).extend(_labels(g.columns))
                        po = {kk: tuple(v) for kk, v in po.items()}
                        rep.check(po == part, f'{PID}:frame.group.axis1:paths-disagree:typed-vs-object-row' + (':missing-key' if kind == 'fn' else ''),
                                  f'typed row gives {part}; the same frame as object gives {po}', dict(rp, sub='agree-object'))
                    else:
                        rep.fail(f'{PID}:frame.group.axis1:object-row:raises:{type(exc).__name__}', f'grouping the object-cast frame raises {exc!r}', dict(rp, sub='agree-object'))
        return

    if fam == 'D':
        _, depth, sub = case
        if depth == 2:
            prod = [(o, i) for o in ('b', 'a') for i in (2, 1, 3)]
        elif depth == 3:
            prod = list(itertools.product(('b', 'a'), (2, 1), ('y', 'x')))
        else:
            prod = ['n', 'm', 'o']
        labs = [prod[i] for i in sub]
        n = len(labs)
        c0 = np.arange(n, dtype=np.int64) * 10
        c1 = np.array([f'r{i}' for i in range(n)], dtype='<U3')
        c2 = np.arange(n, dtype=np.float64) / 2
        cols = [c0, c1, c2]
        other = ['u', 'v', 'w']
        if depth == 1:
            index = sf.Index(labs)
            levels = (0,)
        else:
            index = sf.IndexHierarchy.from_labels(labs)
            levels = (0, 1, [0, 1], [1, 0], [1]) if depth == 2 else (0, 1, 2, [0, 2], [2, 1], [0, 1, 2])
        cells = [tuple(c[i] for c in cols) for i in range(n)]
        for level in levels:
            multi = isinstance(level, list)
            if depth == 1:
                refkeys = [kcell(l) for l in labs]
            elif multi:
                refkeys = [tuple(kcell(l[d]) for d in level) for l in labs]
            else:
                refkeys = [kcell(l[level]) for l in labs]
            kl = 'level-list' if multi else 'level'
            rp = dict(case=list(case), level=level)
            # Frame axis 0
            f = frame_from(cols, ((1, True), (1, False), (1, True)), index=index, column_labels=other)
            src = Src(labs, cells, other, refkeys)
            items, exc = observe(lambda: f.iter_group_labels_items(level))
            rep.count(distinct_key=('D', depth, sub, str(level), 0), sample=dict(rp, groups=None if items is None else len(items)))
            if exc is not None:
                rep.fail(f'{PID}:frame.group_labels.axis0:{kl}:raises:{type(exc).__name__}', f'iter_group_labels_items({level!r}) raises {exc!r} for index {labs}', dict(rp, sub='f0'))
            else:
                _, sfx = check_groups(rep, items, src, lambda g: norm_frame_group(g, 0), 'frame.group_labels.axis0', kl, dict(rp, sub='f0'), multi)
                vals, exc2 = observe(lambda: f.iter_group_labels(level))
                rep.check(exc2 is None and [norm_frame_group(g, 0)[0] for g in vals] == [norm_frame_group(g, 0)[0] for _, g in items],
                          f'{PID}:frame.group_labels.axis0:{kl}:iter_group_labels-differs-from-items', f'iter_group_labels differs from iter_group_labels_items ({exc2!r})', dict(rp, sub='f0'))
                _apply_checks(rep, lambda: f.iter_group_labels(level), lambda: f.iter_group_labels_items(level), items, 'frame.group_labels.axis0', kl, dict(rp, sub='f0'), sfx, _ident)
            # Frame axis 1 (the transposed layout: columns carry the hierarchy)
            if n:
                colsT = [np.array([c0[j], c0[j] + 1], dtype=np.int64) for j in range(n)]
                for lay in ([tuple((1, True) for _ in range(n)), ((n, False),)] if n > 1 else [((1, True),)]):
                    ft = frame_from(colsT, lay, index=['r0', 'r1'], column_labels=index)
                    srcT = Src(labs, [tuple(c) for c in colsT], ['r0', 'r1'], refkeys)
                    items, exc = observe(lambda: ft.iter_group_labels_items(level, axis=1))
                    rep.count(distinct_key=('D', depth, sub, str(level), 1, lay))
                    if exc is not None:
                        rep.fail(f'{PID}:frame.group_labels.axis1:{kl}:raises:{type(exc).__name__}', f'iter_group_labels_items({level!r}, axis=1) raises {exc!r} for columns {labs}', dict(rp, sub='f1', layout=[list(x) for x in lay]))
                    else:
                        _, sfx = check_groups(rep, items, srcT, lambda g: norm_frame_group(g, 1), 'frame.group_labels.axis1', kl, dict(rp, sub='f1', layout=[list(x) for x in lay]), multi)
            # Series
            s = sf.Series(c0, index=index)
            srcS = Src(labs, [(x,) for x in c0], [], refkeys)
            items, exc = observe(lambda: s.iter_group_labels_items(level))
            rep.count(distinct_key=('D', depth, sub, str(level), 'S'))
            if exc is not None:
                rep.fail(f'{PID}:series.group_labels:{kl}:raises:{type(exc).__name__}', f'Series.iter_group_labels_items({level!r}) raises {exc!r} for index {labs}', dict(rp, sub='s'))
            else:
                _, sfx = check_groups(rep, items, srcS, norm_series_group, 'series.group_labels', kl, dict(rp, sub='s'), multi)
                _apply_checks(rep, lambda: s.iter_group_labels(level), lambda: s.iter_group_labels_items(level), items, 'series.group_labels', kl, dict(rp, sub='s'), sfx, _ident)
        return

    if fam == 'E':
        _, kind, vec = case
        n = len(vec)
        v = _col(kind, tuple(vec))
        index = [f'L{i}' for i in range(n)][::-1]
        s = sf.Series(v, index=index)
        src = Src(index, [(x,) for x in v], [], [kcell(x) for x in v])
        klass = 'typed-values' if kind in TYPED else 'object-values'
        rp = dict(case=list(case))
        items, exc = observe(lambda: s.iter_group_items())
        rep.count(distinct_key=('E', kind, vec) if n else None, sample=dict(rp, groups=None if items is None else len(items)))
        if exc is not None:
            rep.fail(f'{PID}:series.group:{klass}:raises:{type(exc).__name__}', f'Series.iter_group_items() raises {exc!r} for values {v.tolist()}', rp)
            return
        _, sfx = check_groups(rep, items, src, norm_series_group, 'series.group', klass, rp, False)
        vals, exc2 = observe(lambda: s.iter_group())
        rep.check(exc2 is None and [_labels(g.index) for g in vals] == [_labels(g.index) for _, g in items],
                  f'{PID}:series.group:{klass}:iter_group-differs-from-items', f'iter_group differs from iter_group_items ({exc2!r})', rp)
        _apply_checks(rep, lambda: s.iter_group(), lambda: s.iter_group_items(), items, 'series.group', klass, rp, sfx, _ident)
        return
    raise ValueError(case)


# ---------------------------------------------------------------------------------------------
# WINDOW cases

def window_reference(n, size, step, start_shift, label_shift, inc, sized, valid_odd):
    """[(j, lo, hi, label position, required)] for every valid anchor, in iteration order"""
    out = []
    jcap = n + max(0, -start_shift)
    j = 0
    while j <= 60:
        left = start_shift + j * step
        sz = size + j * inc
        if sz < 0:
            break
        lo = min(max(left, 0), n)
        hi = min(max(left + sz, lo), n)
        lp = left + sz - 1 + label_shift
        ok = 0 <= lp < n and (not sized or hi - lo == sz) and (not valid_odd or (hi - lo) % 2 == 1)
        if ok:
            required = hi > lo and (step > 0 or j <= jcap) and left <= n - 1
            out.append((j, lo, hi, lp, required))
        if step > 0 and inc >= 0 and left > n + 8:
            break
        if step == 0 and inc == 0:
            break   # the window never changes: one anchor, repeated an unspecified number of times
        j += 1
    return out


def window_cases(tier):
    q = tier == 'quick'
    ns = (0, 1, 2, 3, 4, 5) if q else (0, 1, 2, 3, 4, 5, 6, 7)
    for ck in ('S', 'F0', 'F1'):
        for n in ns:
            for size in (1, 2, 3, 4):
                for step in (0, 1, 2, 3):
                    yield ('W', ck, n, size, step)
    for ck in ('S', 'F0', 'F1'):
        yield ('Wexc', ck)


def _mk_window_container(ck, n, variant=0):
    import static_frame as sf
    labels = [f'L{i}' for i in range(n)]
    if ck == 'S':
        data = np.arange(n, dtype=np.int64) * 10 + 1
        return sf.Series(data, index=labels), labels, [(x,) for x in data], []
    if ck == 'F0':
        cols = [np.arange(n, dtype=np.int64) * 10 + 1, np.array([f's{i}' for i in range(n)], dtype='<U2'), np.arange(n, dtype=np.int64) - 3]
        lay = [((1, True), (1, True), (1, False)), ((1, False), (1, False), (1, True))][variant]
        f = frame_from(cols, lay, index=labels, column_labels=['u', 'v', 'w'])
        return f, labels, [tuple(c[i] for c in cols) for i in range(n)], ['u', 'v', 'w']
    # F1: n columns, 2 rows; windows of columns; blocks of mixed widths
    cols = [np.array([j * 10 + 1, j * 10 + 2], dtype=np.int64) if j % 3 != 2 else np.array([f'a{j}', f'b{j}'], dtype='<U2') for j in range(n)]
    lays = list(layouts_dtype_safe(cols))
    lay = lays[0] if variant == 0 else lays[-1]
    f = frame_from(cols, lay, index=['r0', 'r1'], column_labels=labels)
    return f, labels, [tuple(c) for c in cols], ['r0', 'r1']


def _norm_window(ck, w, as_array):
    """-> (member labels or None, member cells)"""
    import static_frame as sf
    if as_array:
        a = np.asarray(w)
        if ck == 'S':
            return None, [(x,) for x in a]
        if ck == 'F0':
            return None, [tuple(a[r, :]) for r in range(a.shape[0])]
        return None, [tuple(a[:, c]) for c in range(a.shape[1])]
    if ck == 'S':
        return _labels(w.index), [(x,) for x in w.values]
    l, c, _ = norm_frame_group(w, 0 if ck == 'F0' else 1)
    return l, c


CAP = 400


def eval_window_case(rep, case, tier='quick'):
    if case[0] == 'Wexc':
        ck = case[1]
        c, labels, cells, other = _mk_window_container(ck, 3)
        axis = 1 if ck == 'F1' else 0
        for kw in (dict(size=0), dict(size=-1), dict(size=2, step=-1)):
            got, exc = observe(lambda: itertools.islice(c.iter_window_items(axis=axis, **kw), CAP))
            rep.count(distinct_key=('Wexc', ck, str(kw)))
            rep.check(exc is not None, f'{PID}:window:{ck}:invalid-size-or-step-accepted', f'iter_window_items({kw}) does not raise; yields {got!r:.200}', dict(case=list(case), kw=kw))
        return
    _, ck, n, size, step = case
    axis = 1 if ck == 'F1' else 0
    shifts = (-2, -1, 0, 1, 2)
    incs = (-1, 0, 1) if tier == 'quick' else (-2, -1, 0, 1, 2)
    for variant in ((0,) if ck == 'S' else (0, 1)):
        c, labels, cells, other = _mk_window_container(ck, n, variant)
        for ss, ls, inc, sized, vodd in itertools.product(shifts, shifts, incs, (True, False), (False, True)):
            if variant == 1 and (vodd or ls not in (0, -1)):
                continue
            kw = dict(size=size, step=step, start_shift=ss, label_shift=ls, size_increment=inc, window_sized=sized, axis=axis)
            if vodd:
                kw['window_valid'] = (lambda w: w.shape[axis] % 2 == 1)
            rp = dict(case=list(case), variant=variant, ss=ss, ls=ls, inc=inc, sized=sized, vodd=vodd)
            ref = window_reference(n, size, step, ss, ls, inc, sized, vodd)
            base = f'{PID}:window:{ck}'
            for api, as_array, is_items in (('iter_window_items', False, True), ('iter_window_array_items', True, True),
                                            ('iter_window', False, False), ('iter_window_array', True, False)):
                if not is_items and (vodd or variant == 1):
                    continue
                fam_ = 'array' if as_array else 'container'
                got, exc = observe(lambda: itertools.islice(getattr(c, api)(**kw), CAP))
                rep.count(distinct_key=(ck, n, size, step, ss, ls, inc, sized, vodd, variant, api) if any(r[4] for r in ref) else None,
                          sample=dict(rp, api=api, yielded=None if got is None else len(got)))
                if exc is not None:
                    rep.fail(f'{base}:{fam_}:raises:{type(exc).__name__}', f'{api}({kw}) on length {n} raises {exc!r}', dict(rp, api=api))
                    continue
                if not rep.check(len(got) < CAP, f'{base}:{fam_}:does-not-terminate', f'{api}({kw}) on length {n} yields >= {CAP} windows', dict(rp, api=api)):
                    continue
                # match yielded pairs against the reference in order
                ri, ok_all, used = 0, True, set()
                for item in got:
                    lab, w = item if is_items else (None, item)
                    wl, wc = _norm_window(ck, w, as_array)
                    found = None
                    for r in range(ri, len(ref)):
                        j, lo, hi, lp, req = ref[r]
                        if ((lab is None or lab == labels[lp]) and (wl is None or wl == labels[lo:hi]) and len(wc) == hi - lo
                                and all(_cells_eq(a, b) for a, b in zip(wc, cells[lo:hi]))):
                            found = r
                            break
                    if found is None:
                        ok_all = False
                        rep.fail(f'{base}:{fam_}:window-not-as-specified', f'{api}({kw}) on length {n}: yielded (label {lab!r}, members {wl}, cells {wc}) is not a (next) valid anchor of the reference (label, lo, hi) {[(labels[r[3]], r[1], r[2]) for r in ref]}', dict(rp, api=api))
                        break
                    used.add(found)
                    ri = found if (step == 0 and inc == 0) else found + 1
                if ok_all:
                    miss = [(labels[r[3]], r[1], r[2]) for i, r in enumerate(ref) if r[4] and i not in used]
                    rep.check(not miss, f'{base}:{fam_}:valid-anchor-missing', f'{api}({kw}) on length {n}: valid anchors (label, lo, hi) {miss} were not yielded; got {len(got)} windows', dict(rp, api=api))
                if is_items and not as_array and not isinstance(other, type(None)) and ck != 'S' and got:
                    o_ok = all((_labels(w.columns) if ck == 'F0' else _labels(w.index)) == other for _, w in got)
                    rep.check(o_ok, f'{base}:{fam_}:other-axis-labels-changed', f'{api}({kw}): a window does not keep the labels of the other axis', dict(rp, api=api))
            # apply over windows: one result per anchor, labelled by it
            if not vodd and variant == 0 and ls in (0, -1):
                exp = [(labels[r[3]], r[1], r[2]) for r in ref]
                if len({e[0] for e in exp}) == len(exp) and not (step == 0 and inc == 0):
                    ident = (lambda w: '|'.join(map(str, _norm_window(ck, w, False)[0])))
                    got, exc = observe(lambda: c.iter_window(**kw).apply(ident).items())
                    rep.count()
                    if exc is not None:
                        rep.fail(f'{base}:apply:raises:{type(exc).__name__}', f'iter_window({kw}).apply raises {exc!r}', dict(rp, api='apply'))
                    else:
                        allowed = {(l, '|'.join(labels[lo:hi])) for l, lo, hi in exp}
                        req = [(labels[r[3]], '|'.join(labels[r[1]:r[2]])) for r in ref if r[4]]
                        g = [(k, v) for k, v in got]
                        rep.check(all(x in allowed for x in g) and all(x in g for x in req), f'{base}:apply:result-mislabelled',
                                  f'iter_window({kw}).apply gives {g}; expected one result per anchor {req}', dict(rp, api='apply'))


# ---------------------------------------------------------------------------------------------

def _cases(tier, areas):
    if 'group' in areas:
        yield from group_cases(tier)
    if 'window' in areas:
        yield from window_cases(tier)


def _eval(rep, case, tier):
    if case[0] in ('W', 'Wexc'):
        eval_window_case(rep, case, tier)
    else:
        eval_group_case(rep, case, tier)


def _interleave(cases):
    """cheap and expensive cases alternate over shards (i % nshards): spread by a fixed stride permutation"""
    cases = list(cases)
    n = len(cases)
    stride = 7919
    while n and np.gcd(stride, n) != 1:
        stride += 2
    return [cases[(i * stride) % n] for i in range(n)] if n else []


def _run(repo, task, areas, name):
    tier = task.get('tier', 'quick')
    rep = Rep(name, task,
                 rule='group: every key vector over a 2-3 letter alphabet per key kind (int/float/bool/str/datetime/object/mixed/missing), '
                      'rows 0..4 (thorough 0..5), x every dtype-safe block layout of 1-, 2- and 4-column frames; two-key vectors over 4 pairs; '
                      'axis-1 grouping of 1..4 columns by one/two rows; every sub-sequence (<= 4, thorough <= 6) of a depth-2 / depth-3 label product for '
                      'label-depth grouping (Frame both axes, Series); Series value grouping; 40/67-row inputs.  '
                      'window: every (size 1..4, step 0..3, start_shift -2..2, label_shift -2..2, size_increment -1..1 (thorough -2..2), window_sized, '
                      'window_valid) on Series / Frame axis 0 / Frame axis 1 of length 0..5 (thorough 0..7).  '
                      'A case is non-trivial when the grouped axis has >= 1 member / the reference holds >= 1 required window.',
                 bound='rows <= 5 (group), length <= 7 (window), columns <= 4, alphabets <= 3 key values, IndexHierarchy depth <= 3',
                 budget_s=38 if tier == 'quick' else 580)
    for case in rep.shard(_interleave(_cases(tier, areas))):
        try:
            _eval(rep, case, tier)
        except Exception:
            rep.error(f'harness fault in case {case!r}')
    return rep.done()


def run(repo, task):
    return _run(repo, task, ('group', 'window'), 'C13-group-window')


def run_group(repo, task):
    return _run(repo, task, ('group',), 'C13-group')


def run_window(repo, task):
    return _run(repo, task, ('window',), 'C13-window')


def replay(repo, rp):
    """re-run exactly the case recorded in rp['case'] and report whether the same failure key shows up again"""
    case = rp['case']
    case = tuple(tuple(x) if isinstance(x, list) else x for x in case)
    rep = Rep('C13-replay', dict(tier=rp.get('tier', 'thorough')), rule='', bound='')
    try:
        _eval(rep, case, rp.get('tier', 'thorough'))
    except Exception as e:
        return dict(outcome='pass', note=f'harness fault during replay: {e!r}')
    keys = sorted(rep.failures)
    want = rp.get('key')
    hit = (want in rep.failures) if want else bool(keys)
    return dict(outcome='fail' if hit else 'pass', failing_keys=keys, what=(rep.failures.get(want) or {}).get('what') if want else None)
