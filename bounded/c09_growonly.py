"""C09 bounded stand-in: grow-only containers are append-only, all-or-nothing, never shared.

Run-time history contract on the REAL package.  A history is a sequence of steps applied to a freshly built grow-only
root (FrameGO / IndexGO / IndexHierarchyGO); a step is either
  * a growth call (valid, duplicate, partially duplicate, wrong-length, unaligned, wrongly typed argument), or
  * a derivation that adds containers to the live set (conversions, selections, relabel, sort, operators, iteration, copies,
    cache-materialising reads), or
  * a growth call on the most recently derived grow-only container (reverse direction).
Contract checked after every step, for every live container:
  - a container that was not the target of the step has exactly its previous deep snapshot;
  - the target of a returning growth call changed only by appending: class/name/index unchanged, old labels, positions,
    column values and dtypes unchanged, the new labels are exactly the labels given, in order; an argument holding a duplicate
    label or a mis-sized value must not be accepted;
  - the target of a raising growth call equals its previous snapshot, is structurally coherent (len(columns) == data width,
    every column readable by label) and accepts a following valid growth call.
"""
from __future__ import annotations
import copy
import datetime
import itertools
import pickle
import numpy as np
from .common import Report, snapshot, arr_snap, _cell

NAN = float('nan')


def fas(a):
    """fast exact array snapshot: shape, dtype and the raw bytes (object arrays: per-cell canonical form as in common._cell).
    Same information as common.arr_snap, ~10x cheaper; bitwise equality is what "unchanged" means here."""
    if a.dtype.kind == 'O':
        return (a.shape, 'O', tuple(_cell(x) for x in a.ravel()))
    return (a.shape, a.dtype.str, a.tobytes())


def snap(c):
    """deep snapshot of a container (class, name, labels, per-block values and dtypes); same content as common.snapshot, using `fas`"""
    import static_frame as sf
    if isinstance(c, sf.Frame):
        return ('F', type(c).__name__, _name(c.name), snap(c.index), snap(c.columns), tuple(fas(b) for b in c._blocks._blocks), c.shape)
    if isinstance(c, sf.Series):
        return ('S', type(c).__name__, _name(c.name), snap(c.index), fas(c.values))
    if isinstance(c, sf.IndexHierarchy):
        return ('IH', type(c).__name__, _name(c.name), fas(c.values), c.depth)
    if isinstance(c, sf.Index):
        return ('I', type(c).__name__, _name(c.name), fas(c.values))
    if isinstance(c, np.ndarray):
        return ('A', fas(c))
    return snapshot(c)


def _name(n):
    return n if isinstance(n, tuple) else _cell(n)


def labels_of(idx):
    """labels as python values (tuples for depth > 1)"""
    if idx.depth > 1:
        return [tuple(r) for r in idx.values.tolist()] if len(idx) else []
    v = idx.values
    return v.tolist() if v.dtype.kind in 'iufbUS' else list(v)


def _norm(x):
    if isinstance(x, datetime.date) and not isinstance(x, datetime.datetime):
        return np.datetime64(x)
    return x


def label_eq(a, b):
    """same label: equal and of the same broad kind (no bool/int/str confusion; int vs float with equal value is tolerated because the
    labels array may be re-typed when a label of another numeric type is appended)"""
    if isinstance(a, tuple) or isinstance(b, tuple):
        return isinstance(a, tuple) and isinstance(b, tuple) and len(a) == len(b) and all(label_eq(x, y) for x, y in zip(a, b))
    a, b = _norm(a), _norm(b)
    ka, kb = _kind(a), _kind(b)
    if ka != kb:
        return False
    if _is_missing(a) and _is_missing(b):
        return True
    return bool(a == b)


def _kind(x):
    if isinstance(x, (bool, np.bool_)):
        return 'b'
    if isinstance(x, (int, float, np.integer, np.floating)):
        return 'n'
    if isinstance(x, (str, np.str_)):
        return 's'
    return type(x).__name__


def labels_eq(a, b):
    return len(a) == len(b) and all(label_eq(x, y) for x, y in zip(a, b))


# ---------------------------------------------------------------------------------------------
# target state (structured, so that "changed only by appending" can be stated)

def tstate(T):
    """structured state of a grow-only container read through its public surface; raises if the container is unreadable"""
    import static_frame as sf
    if isinstance(T, sf.Frame):
        labels = labels_of(T.columns)
        cols = tuple(fas(a) for a in T.iter_array(axis=0))
        if len(cols) != len(labels):
            raise RuntimeError(f'{len(labels)} column labels but {len(cols)} column arrays')
        return dict(cls=type(T).__name__, name=_name(T.name), index=snap(T.index), labels=labels, cols=cols, shape=T.shape,
                    colname=T.columns.name, colcls=type(T.columns).__name__)
    labels = labels_of(T)
    return dict(cls=type(T).__name__, name=T.name, labels=labels, positions=T.positions.tolist(), depth=T.depth)


def coherent(T, st=None):
    """structural usability of a grow-only container; returns None or a description of the incoherence"""
    import static_frame as sf
    try:
        if isinstance(T, sf.Frame):
            n = len(T.columns)
            if T._blocks.shape[1] != n:
                return f'len(columns)={n} but data width={T._blocks.shape[1]}'
            if T.shape != (len(T.index), n) or T.values.shape != T.shape:
                return f'shape {T.shape} values.shape {T.values.shape} labels ({len(T.index)},{n})'
            if len(T.dtypes) != n:
                return f'len(dtypes)={len(T.dtypes)} != {n}'
            labels = labels_of(T.columns)
            if len(T.columns.values) != n or len(T.columns.positions) != n:
                return 'columns values/positions length differs from len(columns)'
            cols = st['cols'] if st is not None else tuple(fas(a) for a in T.iter_array(axis=0))
            if len(cols) != n:
                return f'{n} labels but {len(cols)} column arrays'
            for j, lb in enumerate(labels):
                if fas(T[lb].values) != cols[j]:
                    return f'column {lb!r} read by label differs from position {j}'
                if lb not in T.columns:
                    return f'label {lb!r} listed but not contained'
            return None
        n = len(T)
        labels = labels_of(T)
        if len(labels) != n or len(T.positions) != n or T.values.shape[0] != n:
            return f'len={n} labels={len(labels)} positions={len(T.positions)} values={T.values.shape}'
        for i, lb in enumerate(labels):
            if _is_missing(lb):
                continue  # NaN / NaT / None labels: containment semantics are C02's subject, not C09's
            if lb not in T:
                return f'label {lb!r} listed but not contained'
            j = T.loc_to_iloc(lb)
            if j != i:
                return f'label {lb!r} at position {i} maps to {j}'
        if len(set(map(_hkey, labels))) != n:
            return 'duplicate labels stored'
        if len(list(T)) != n:
            return 'iteration length'
        return None
    except Exception as e:
        return f'unreadable: {e!r}'


def _is_missing(x):
    """labels whose containment / lookup semantics are outside C09: NaN, NaT, None, and date components of hierarchical labels
    (IndexHierarchy.values hands back datetime.date objects that the typed level does not look up)"""
    if isinstance(x, tuple):
        return any(_is_missing(y) or isinstance(y, (datetime.date, np.datetime64)) for y in x)
    if x is None:
        return True
    if isinstance(x, (np.datetime64, np.timedelta64)):
        return bool(np.isnat(x))
    return isinstance(x, (float, np.floating)) and x != x


def _hkey(x):
    try:
        hash(x)
        return x
    except TypeError:
        return repr(x)


# ---------------------------------------------------------------------------------------------
# roots

def frame_root(name):
    import static_frame as sf
    R = ('r0', 'r1', 'r2')
    if name == 'dict':
        return sf.FrameGO.from_dict({'a': (1, 2, 3), 'b': (1.5, NAN, 2.0)}, index=R, name='g'), []
    if name == 'auto':
        return sf.FrameGO(np.arange(6).reshape(2, 3)), []
    if name == 'empty':
        return sf.FrameGO(index=R), []
    if name == 'hier':
        cols = sf.IndexHierarchy.from_labels([('x', 1), ('x', 2)], name=('c0', 'c1'))
        return sf.FrameGO(np.array([[1, 2], [3, 4], [5, 6]]), index=R, columns=cols, name='gh'), []
    if name == 'from_static':
        s = sf.Frame.from_dict({'a': (1, 2, 3), 'b': ('x', 'y', 'z')}, index=R, name='s')
        return s.to_frame_go(), [('static_source', s), ('static_source.columns', s.columns)]
    if name == 'from_he':
        s = sf.FrameHE.from_dict({'a': (1, 2, 3)}, index=R, name='s')
        return sf.FrameGO(s), [('he_source', s)]
    if name == 'own_columns':
        cols = sf.IndexGO(('a', 'b'))
        keep = sf.Index(cols)
        g = sf.FrameGO(np.zeros((3, 2)), index=R, columns=cols)  # not owned: must be copied
        return g, [('columns_argument', cols), ('columns_argument_static_copy', keep)]
    raise ValueError(name)


def index_root(name):
    import static_frame as sf
    if name == 'str':
        return sf.IndexGO(('a', 'b'), name='i'), []
    if name == 'int':
        return sf.IndexGO((0, 1, 2)), []
    if name == 'auto':  # loc_is_iloc: no hash map until a non-positional label arrives
        g = sf.FrameGO(np.arange(6).reshape(2, 3))
        return g.columns, [('owner_frame_index', g.index)]
    if name == 'empty':
        return sf.IndexGO(()), []
    if name == 'from_static':
        s = sf.Index(('a', 'b'), name='s')
        return sf.IndexGO(s), [('static_source', s)]
    if name == 'date':
        return sf.IndexDateGO(('2020-01-01', '2020-01-02')), []
    raise ValueError(name)


def ih_root(name):
    import static_frame as sf
    if name == 'ab':
        return sf.IndexHierarchyGO.from_labels([('a', 1), ('b', 1)], name='h'), []
    if name == 'product':
        return sf.IndexHierarchyGO.from_product(('a', 'b'), (1, 2)), []
    if name == 'from_static':
        s = sf.IndexHierarchy.from_labels([('a', 1), ('a', 2), ('b', 1)], name='s')
        return sf.IndexHierarchyGO(s), [('static_source', s)]
    if name == 'depth3':
        return sf.IndexHierarchyGO.from_labels([('a', 1, 'p'), ('a', 2, 'p'), ('b', 1, 'q')]), []
    if name == 'depth3_last_root_two_mids':
        return sf.IndexHierarchyGO.from_labels([('a', 1, 'p'), ('b', 1, 'q'), ('b', 2, 'q')]), []
    raise ValueError(name)


class H:
    """execution state of one history"""

    def __init__(self, fam, rootname):
        self.fam, self.rootname = fam, rootname
        root, extra = {'FrameGO': frame_root, 'IndexGO': index_root, 'IHGO': ih_root}[fam](rootname)
        self.T = root
        self.live = []          # [name, container, snapshot]
        for n, c in extra:
            self.live.append([n, c, snap(c)])
        self.k = 0
        self.last_go = None     # (name, container) most recently derived grow-only container
        self.state = tstate(root)

    def fresh(self):
        """a label not yet used, in the style of the root's labels"""
        import static_frame as sf
        self.k += 1
        idx = self.T.columns if isinstance(self.T, sf.Frame) else self.T
        return fresh_label(idx, self.k)


def fresh_label(idx, k):
    """a label that is new for `idx` and type-compatible with its existing labels"""
    if idx.depth > 1:
        if len(idx):
            last = labels_of(idx)[-1]
            outer = 'n%d' % k
            if isinstance(last[0], (datetime.date, np.datetime64)):
                outer = np.datetime64('2021-01-01') + np.timedelta64(k, 'D')
            return (outer,) + tuple(last[1:])  # new outer label over existing inner labels
        return ('n%d' % k,) + tuple([k] * (idx.depth - 1))
    kind = idx.values.dtype.kind
    if kind == 'M':
        return np.datetime64('2021-01-01') + np.timedelta64(k, 'D')
    if len(idx) and kind in 'iu':
        return 100 + k
    return 'n%d' % k


# ---------------------------------------------------------------------------------------------
# growth actions.  plan(h) -> dict(call=fn(), new=[labels] | None | 'any') or None when not applicable in the current state.
# `new`: the labels that a returning call must have appended, in order.  None: the argument holds a duplicate label or a
# mis-sized value, so the property requires rejection.  'any': wrongly typed argument, only append-only-ness is checked.
# A call may always raise; then the all-or-nothing clause applies.

def _existing(T_idx):
    ls = labels_of(T_idx)
    return ls[0] if ls else None


def _reg(G):
    def reg(name):
        def deco(f):
            G[name] = f
            return f
        return deco
    return reg


def frame_growth():
    import static_frame as sf
    G = {}
    reg = _reg(G)
    n = lambda T: len(T.index)
    ser = lambda T, name=None, k=0: sf.Series(np.arange(n(T)) * 10 + k, index=T.index, name=name)

    def unaligned_index(T):
        ls = labels_of(T.index)
        return ls[::-1][:-1] + ['zz'] if T.index.depth == 1 else ls

    def cc(T):  # columns constructor for frames handed to extend
        return None if T.columns.depth == 1 else sf.IndexHierarchy.from_labels

    def setter(mk, new_of=lambda lb: [lb]):
        def plan(h):
            T, lb = h.T, h.fresh()
            v = mk(T)
            return dict(call=lambda: T.__setitem__(lb, v), new=new_of(lb))
        return plan

    G['set_scalar'] = setter(lambda T: 7)
    G['set_generator'] = setter(lambda T: (i * 2 for i in range(n(T))))
    G['set_series_unaligned'] = setter(lambda T: sf.Series(np.arange(n(T)), index=unaligned_index(T)))
    G['set_wrong_len_list'] = setter(lambda T: list(range(n(T) + 1)), lambda lb: None)
    G['set_wrong_len_array'] = setter(lambda T: np.arange(n(T) + 2), lambda lb: None)
    G['set_short_tuple'] = setter(lambda T: tuple(range(n(T) - 1)), lambda lb: None)
    G['set_2d_array'] = setter(lambda T: np.zeros((n(T), 2)), lambda lb: None)
    G['set_frame_value'] = setter(lambda T: sf.Frame(np.zeros((n(T), 1)), index=T.index), lambda lb: 'any')

    @reg('set_list')
    def _(h):
        T, lb = h.T, h.fresh()
        v = list(range(n(T)))
        return dict(call=lambda: T.__setitem__(lb, v), new=[lb], vals=[np.array(v, dtype=np.int64)])

    @reg('set_array_float')
    def _(h):
        T, lb = h.T, h.fresh()
        v = np.arange(n(T)) * 1.5
        return dict(call=lambda: T.__setitem__(lb, v), new=[lb], vals=[v.copy()], caller_arrays=[v])

    @reg('set_array_object')
    def _(h):
        T, lb = h.T, h.fresh()
        v = np.array(([None, 'x', 3] * n(T))[:n(T)], dtype=object)
        return dict(call=lambda: T.__setitem__(lb, v), new=[lb], vals=[v.copy()], caller_arrays=[v])

    @reg('set_series_aligned')
    def _(h):
        T, lb = h.T, h.fresh()
        s = ser(T)
        return dict(call=lambda: T.__setitem__(lb, s), new=[lb], vals=[s.values.copy()])

    @reg('set_tuple_key')
    def _(h):
        T = h.T
        h.k += 1
        lb = ('t', h.k) if T.columns.depth <= 2 else ('t', h.k, 'p')
        return dict(call=lambda: T.__setitem__(lb, 1), new=[lb])

    @reg('set_dup')
    def _(h):
        T, lb = h.T, _existing(h.T.columns)
        return None if lb is None else dict(call=lambda: T.__setitem__(lb, 1), new=None)

    @reg('set_dup_equal_other_type')
    def _(h):
        T, lb = h.T, _existing(h.T.columns)
        if lb is None or isinstance(lb, tuple) or not isinstance(lb, (int, str)):
            return None
        alt = float(lb) if isinstance(lb, int) else np.str_(lb)
        return dict(call=lambda: T.__setitem__(alt, 1), new=None)

    @reg('set_unhashable_key')
    def _(h):
        T = h.T
        return dict(call=lambda: T.__setitem__(['u', 1], 1), new='any')

    @reg('set_failing_iterable')
    def _(h):
        T, lb = h.T, h.fresh()

        def gen():
            yield 1
            raise ZeroDivisionError('value evaluation fails midway')
        return dict(call=lambda: T.__setitem__(lb, gen()), new='any')

    @reg('extend_series')
    def _(h):
        T, lb = h.T, h.fresh()
        s = ser(T, lb)
        return dict(call=lambda: T.extend(s), new=[lb], vals=[s.values.copy()])

    @reg('extend_series_dup')
    def _(h):
        T, lb = h.T, _existing(h.T.columns)
        if lb is None:
            return None
        s = ser(T, lb)
        return dict(call=lambda: T.extend(s), new=None)

    @reg('extend_series_unaligned')
    def _(h):
        T, lb = h.T, h.fresh()
        s = sf.Series(np.arange(n(T)), index=unaligned_index(T), name=lb)
        return dict(call=lambda: T.extend(s), new=[lb])

    @reg('extend_series_no_name')
    def _(h):
        T = h.T
        s = ser(T).rename(None)
        return dict(call=lambda: T.extend(s), new='any')

    def frame_arg(T, labels, index=None, cls=None):
        cls = cls or sf.Frame
        return cls.from_items(((lb, np.arange(n(T)) * (0.5 if j % 2 else 1)) for j, lb in enumerate(labels)),
                              index=T.index if index is None else index, columns_constructor=cc(T))

    @reg('extend_frame')
    def _(h):
        T, a, b = h.T, h.fresh(), h.fresh()
        f = frame_arg(T, [a, b])
        return dict(call=lambda: T.extend(f), new=[a, b], vals=[np.arange(n(T)), np.arange(n(T)) * 0.5])

    @reg('extend_frame_go')
    def _(h):
        T, a = h.T, h.fresh()
        f = sf.FrameGO.from_items(((a, np.arange(n(T))),), index=T.index,
                                  columns_constructor=None if T.columns.depth == 1 else sf.IndexHierarchyGO.from_labels)
        h.live.append(['extend_argument_frame_go', f, snap(f)])
        return dict(call=lambda: T.extend(f), new=[a])

    @reg('extend_frame_all_dup')
    def _(h):
        T = h.T
        if not len(T.columns):
            return None
        f = T.to_frame()
        return dict(call=lambda: T.extend(f), new=None)

    @reg('extend_self')
    def _(h):
        T = h.T
        return None if not len(T.columns) else dict(call=lambda: T.extend(T), new=None)

    @reg('extend_frame_partial_dup')
    def _(h):
        T, a, lb = h.T, h.fresh(), _existing(h.T.columns)
        if lb is None:
            return None
        f = frame_arg(T, [a, lb])
        return dict(call=lambda: T.extend(f), new=None)

    @reg('extend_frame_partial_dup_last')
    def _(h):
        T, a, b = h.T, h.fresh(), h.fresh()
        ls = labels_of(T.columns)
        if not ls:
            return None
        f = frame_arg(T, [a, b, ls[-1]])
        return dict(call=lambda: T.extend(f), new=None)

    @reg('extend_frame_unaligned')
    def _(h):
        T, a, b = h.T, h.fresh(), h.fresh()
        f = frame_arg(T, [a, b], index=unaligned_index(T))
        return dict(call=lambda: T.extend(f), new=[a, b])

    @reg('extend_frame_more_rows')
    def _(h):
        T, a = h.T, h.fresh()
        f = sf.Frame.from_items(((a, np.arange(n(T) + 2)),), columns_constructor=cc(T))
        return dict(call=lambda: T.extend(f), new=[a])

    @reg('extend_frame_no_columns')
    def _(h):
        T = h.T
        f = sf.Frame(index=T.index)
        return dict(call=lambda: T.extend(f), new=[])

    @reg('extend_wrong_type')
    def _(h):
        T = h.T
        return dict(call=lambda: T.extend([1, 2, 3]), new='any')

    @reg('extend_index_as_container')
    def _(h):
        T = h.T
        return dict(call=lambda: T.extend(T.index), new='any')

    @reg('extend_items')
    def _(h):
        T, a, b = h.T, h.fresh(), h.fresh()
        pairs = ((a, ser(T, k=1)), (b, ser(T, k=2)))
        return dict(call=lambda: T.extend_items(pairs), new=[a, b], vals=[pairs[0][1].values.copy(), pairs[1][1].values.copy()])

    @reg('extend_items_iter_values')
    def _(h):
        T, a, b = h.T, h.fresh(), h.fresh()
        cnt = n(T)
        return dict(call=lambda: T.extend_items(iter(((a, list(range(cnt))), (b, 0.5)))), new=[a, b])

    @reg('extend_items_partial_dup')
    def _(h):
        T, a, lb = h.T, h.fresh(), _existing(h.T.columns)
        if lb is None:
            return None
        pairs = ((a, ser(T)), (lb, ser(T)))
        return dict(call=lambda: T.extend_items(pairs), new=None)

    @reg('extend_items_dup_within')
    def _(h):
        T, a = h.T, h.fresh()
        pairs = ((a, ser(T)), (a, ser(T)))
        return dict(call=lambda: T.extend_items(pairs), new=None)

    @reg('extend_items_second_wrong_len')
    def _(h):
        T, a, b = h.T, h.fresh(), h.fresh()
        pairs = ((a, ser(T)), (b, list(range(n(T) + 1))))
        return dict(call=lambda: T.extend_items(pairs), new=None)

    @reg('extend_items_empty')
    def _(h):
        T = h.T
        return dict(call=lambda: T.extend_items(()), new=[])

    @reg('extend_items_malformed')
    def _(h):
        T, a = h.T, h.fresh()
        pairs = ((a, ser(T)), 5)
        return dict(call=lambda: T.extend_items(pairs), new='any')

    return G


FRAME_CORE_G = ['set_scalar', 'set_series_aligned', 'set_dup', 'set_wrong_len_list', 'extend_series', 'extend_frame', 'extend_frame_partial_dup',
                'extend_items', 'extend_items_partial_dup', 'grow_derived', 'set_dup_equal_other_type']
FRAME_MINI_G = ['set_scalar', 'extend_frame_partial_dup', 'extend_items_partial_dup', 'grow_derived']


def frame_derive():
    """derivations: name -> fn(T) -> list of (name, container) added to the live set"""
    import static_frame as sf
    D = {}
    c0 = lambda T: labels_of(T.columns)[0]
    r0 = lambda T: labels_of(T.index)[0]
    one = lambda nm, f: D.__setitem__(nm, lambda T: [(nm, f(T))])
    many = lambda nm, f, cap: D.__setitem__(nm, lambda T: [('%s[%d]' % (nm, i), x) for i, x in enumerate(itertools.islice(f(T), cap))])
    one('to_frame', lambda T: T.to_frame())
    one('to_frame_go', lambda T: T.to_frame_go())
    one('to_frame_he', lambda T: T.to_frame_he())
    D['to_frame_then_go'] = lambda T: (lambda s: [('to_frame_then_go.static', s), ('to_frame_then_go.go', s.to_frame_go())])(T.to_frame())
    one('ctor_Frame', lambda T: sf.Frame(T))
    one('ctor_FrameGO', lambda T: sf.FrameGO(T))
    one('iloc_cols', lambda T: T.iloc[:, :1])
    one('iloc_all', lambda T: T.iloc[:, :])
    one('iloc_rows', lambda T: T.iloc[1:])
    one('getitem_list', lambda T: T[[c0(T)]])
    one('getitem_col', lambda T: T[c0(T)])
    one('loc_rows', lambda T: T.loc[r0(T):])
    one('loc_all', lambda T: T.loc[:, :])
    one('relabel_columns', lambda T: T.relabel(columns=lambda x: ('re', x)))
    one('relabel_index', lambda T: T.relabel(index=lambda x: ('re', x)))
    one('rename', lambda T: T.rename('renamed'))
    one('relabel_level_add_index', lambda T: T.relabel_level_add(index='L'))
    one('relabel_level_add_columns', lambda T: T.relabel_level_add(columns='L'))
    one('relabel_shift_in', lambda T: T.relabel_shift_in(c0(T)))
    one('clip', lambda T: T.clip(lower=0) if all(k in 'iuf' for k in (d.kind for d in T.dtypes.values)) else T.head(len(T)))
    one('rename_axes', lambda T: T.rename(index='i', columns='c'))
    one('sort_columns', lambda T: T.sort_columns(ascending=False))
    one('sort_index', lambda T: T.sort_index(ascending=False))
    one('sort_values', lambda T: T.sort_values(c0(T)))
    one('reindex_same', lambda T: T.reindex(columns=T.columns, index=T.index))
    one('reindex_own', lambda T: T.reindex(index=T.index, own_index=True))
    one('reindex_new', lambda T: T.reindex(columns=labels_of(T.columns)[::-1] + [fresh_label(T.columns, 77)], fill_value=0))
    one('add', lambda T: T + 1)
    one('eq_self', lambda T: T == T)
    one('neg', lambda T: -T)
    one('transpose', lambda T: T.transpose())
    one('T_T', lambda T: T.T.T)
    one('set_index', lambda T: T.set_index(c0(T)))
    one('set_index_drop', lambda T: T.set_index(c0(T), drop=True))
    one('unset_index', lambda T: T.unset_index())
    one('astype', lambda T: T.astype(object))
    one('fillna', lambda T: T.fillna(0))
    one('dropna', lambda T: T.dropna(axis=1))
    one('drop_col', lambda T: T.drop[c0(T)])
    one('drop_none', lambda T: T.drop.iloc[:0])
    one('assign', lambda T: T.assign[c0(T)](9))
    one('head', lambda T: T.head(2))
    one('roll', lambda T: T.roll(0, 1, include_columns=True))
    one('shift', lambda T: T.shift(1, 0))
    one('isna', lambda T: T.isna())
    one('deepcopy', lambda T: copy.deepcopy(T))
    one('pickle', lambda T: pickle.loads(pickle.dumps(T)))
    one('from_concat', lambda T: sf.FrameGO.from_concat((T, T), index=sf.IndexAutoFactory))
    one('from_concat_axis1', lambda T: sf.FrameGO.from_concat((T, T.relabel(columns=lambda x: ('o', x))), axis=1))
    one('columns_copy', lambda T: T.columns.copy())
    one('columns_static', lambda T: sf.Index(T.columns) if T.columns.depth == 1 else sf.IndexHierarchy(T.columns))
    one('columns_go_ctor', lambda T: sf.IndexGO(T.columns) if T.columns.depth == 1 else sf.IndexHierarchyGO(T.columns))
    one('columns_values', lambda T: T.columns.values)
    one('columns_positions', lambda T: T.columns.positions)
    one('columns_slice', lambda T: T.columns[:1])
    one('columns_rename', lambda T: T.columns.rename('cn'))
    one('columns_to_other_frame', lambda T: sf.FrameGO(np.zeros((1, len(T.columns))), columns=T.columns))
    one('columns_to_static_frame', lambda T: sf.Frame(np.zeros((1, len(T.columns))), columns=T.columns))
    one('keys', lambda T: sf.Index(T.keys()) if T.columns.depth == 1 else sf.IndexHierarchy(T.keys()))
    one('index', lambda T: T.index)
    one('values', lambda T: T.values)
    one('dtypes', lambda T: T.dtypes)
    one('sum', lambda T: T.sum())
    one('sum_axis1', lambda T: T.sum(axis=1))
    one('count', lambda T: T.count())
    many('iter_series', lambda T: T.iter_series(axis=0), 3)
    many('iter_series_rows', lambda T: T.iter_series(axis=1), 2)
    many('iter_array', lambda T: T.iter_array(axis=1), 2)
    many('items', lambda T: (s for _, s in T.items()), 3)
    many('iter_group', lambda T: T.iter_group(c0(T)), 2)
    many('iter_group_labels', lambda T: T.iter_group_labels(0), 2)
    many('iter_window', lambda T: T.iter_window(size=2), 2)
    D['iter_tuple'] = lambda T: [('iter_tuple', sf.Series([repr(t) for t in T.iter_tuple(axis=1)], dtype=object))]
    D['read_caches'] = lambda T: (T.values, T.columns.values, T.columns.positions, T.dtypes, T.shape, repr(T), [])[-1]
    D['loc_to_iloc_reads'] = lambda T: ([T.columns.loc_to_iloc(x) for x in labels_of(T.columns)], c0(T) in T.columns, [])[-1]
    return D


FRAME_CORE_D = ['to_frame', 'to_frame_go', 'to_frame_then_go', 'iloc_all', 'getitem_list', 'relabel_index', 'columns_copy', 'columns_values',
                'columns_to_other_frame', 'read_caches', 'reindex_same', 'transpose', 'set_index']
FRAME_MINI_D = ['to_frame_go', 'to_frame_then_go', 'columns_copy', 'read_caches']


def index_growth():
    import static_frame as sf
    G = {}
    reg = _reg(G)
    is_date = lambda T: T.values.dtype.kind == 'M'

    @reg('append')
    def _(h):
        T, lb = h.T, h.fresh()
        return dict(call=lambda: T.append(lb), new=[lb])

    @reg('append_tuple')
    def _(h):
        T = h.T
        h.k += 1
        lb = ('t', h.k)
        return dict(call=lambda: T.append(lb), new=[lb] if not is_date(T) else 'any')

    @reg('append_other_type')
    def _(h):
        T = h.T
        h.k += 1
        lb = 0.5 + h.k if (len(T) and T.values.dtype.kind in 'iu') else 1000 + h.k
        return dict(call=lambda: T.append(lb), new=[lb] if not is_date(T) else 'any')

    @reg('append_none')
    def _(h):
        T = h.T
        if any(x is None for x in labels_of(T)):
            return dict(call=lambda: T.append(None), new=None)
        return dict(call=lambda: T.append(None), new=[None] if not is_date(T) else 'any')

    @reg('append_dup')
    def _(h):
        T, lb = h.T, _existing(h.T)
        return None if (lb is None or _is_missing(lb)) else dict(call=lambda: T.append(lb), new=None)

    @reg('append_dup_last')
    def _(h):
        T = h.T
        ls = [x for x in labels_of(T) if not _is_missing(x)]  # NaN / NaT labels are not equal to themselves: not duplicates
        return None if not ls else dict(call=lambda: T.append(ls[-1]), new=None)

    @reg('append_dup_equal_other_type')
    def _(h):
        T = h.T
        ls = [x for x in labels_of(T) if isinstance(x, (int, str)) and not isinstance(x, bool)]
        if not ls:
            return None
        lb = ls[-1]
        alt = float(lb) if isinstance(lb, int) else np.str_(lb)
        return dict(call=lambda: T.append(alt), new=None)

    @reg('append_unhashable')
    def _(h):
        T = h.T
        return dict(call=lambda: T.append(['u']), new='any')

    @reg('extend')
    def _(h):
        T, a, b = h.T, h.fresh(), h.fresh()
        return dict(call=lambda: T.extend((a, b)), new=[a, b])

    @reg('extend_array')
    def _(h):
        T, a, b = h.T, h.fresh(), h.fresh()
        v = np.array([a, b])
        return dict(call=lambda: T.extend(v), new=[a, b], caller_arrays=[v])

    @reg('extend_index')
    def _(h):
        T, a, b = h.T, h.fresh(), h.fresh()
        other = sf.Index((a, b)) if not is_date(T) else sf.IndexDate((a, b))
        h.live.append(['extend_argument_index', other, snap(other)])
        return dict(call=lambda: T.extend(other), new=[a, b])

    @reg('extend_generator')
    def _(h):
        T, a, b = h.T, h.fresh(), h.fresh()
        return dict(call=lambda: T.extend(x for x in (a, b)), new=[a, b])

    @reg('extend_partial_dup')
    def _(h):
        T, a, lb = h.T, h.fresh(), _existing(h.T)
        return None if lb is None else dict(call=lambda: T.extend((a, lb)), new=None)

    @reg('extend_all_dup')
    def _(h):
        T = h.T
        ls = labels_of(T)
        return None if not ls else dict(call=lambda: T.extend(tuple(ls)), new=None)

    @reg('extend_self')
    def _(h):
        T = h.T
        return None if not len(T) else dict(call=lambda: T.extend(T), new=None)

    @reg('extend_dup_within')
    def _(h):
        T, a = h.T, h.fresh()
        return dict(call=lambda: T.extend((a, a)), new=None)

    @reg('extend_empty')
    def _(h):
        T = h.T
        return dict(call=lambda: T.extend(()), new=[])

    @reg('extend_wrong_type')
    def _(h):
        T = h.T
        return dict(call=lambda: T.extend(5), new='any')

    @reg('extend_failing_iterable')
    def _(h):
        T, a = h.T, h.fresh()

        def gen():
            yield a
            raise ZeroDivisionError('value evaluation fails midway')
        return dict(call=lambda: T.extend(gen()), new='any')

    return G


INDEX_CORE_G = ['append', 'append_dup', 'extend', 'extend_partial_dup', 'append_dup_equal_other_type', 'grow_derived', 'append_other_type']
INDEX_MINI_G = ['append', 'append_dup', 'extend_partial_dup', 'append_dup_equal_other_type', 'grow_derived']


def index_derive():
    import static_frame as sf
    D = {}
    one = lambda nm, f: D.__setitem__(nm, lambda T: [(nm, f(T))])
    one('copy', lambda T: T.copy())
    one('copy_module', lambda T: copy.copy(T))
    one('deepcopy', lambda T: copy.deepcopy(T))
    one('pickle', lambda T: pickle.loads(pickle.dumps(T)))
    one('ctor_static', lambda T: sf.Index(T))
    one('ctor_go', lambda T: sf.IndexGO(T))
    one('ctor_same_class', lambda T: type(T)(T))
    one('values', lambda T: T.values)
    one('positions', lambda T: T.positions)
    one('slice_all', lambda T: T[:])
    one('slice_head', lambda T: T[:1])
    one('iloc_all', lambda T: T.iloc[:])
    one('loc_all', lambda T: T.loc[:])
    one('rename', lambda T: T.rename('renamed'))
    one('relabel', lambda T: T.relabel(lambda x: ('re', x)))
    one('sort', lambda T: T.sort(ascending=False))
    one('union_self', lambda T: T.union(T))
    one('union_none', lambda T: T.union())
    one('intersection_self', lambda T: T.intersection(T))
    one('difference_empty', lambda T: T.difference(()))
    one('to_series', lambda T: T.to_series())
    one('level_add', lambda T: T.level_add('L'))
    one('astype', lambda T: T.astype(object))
    one('fillna', lambda T: T.fillna(0))
    one('roll', lambda T: T.roll(1))
    one('head', lambda T: T.head(5))
    one('add', lambda T: T + T)
    one('series_index', lambda T: sf.Series(np.arange(len(T)), index=T))
    one('frame_index', lambda T: sf.Frame(np.zeros((len(T), 1)), index=T))
    one('frame_columns', lambda T: sf.Frame(np.zeros((1, len(T))), columns=T))
    one('frame_go_columns', lambda T: sf.FrameGO(np.zeros((1, len(T))), columns=T))
    one('frame_go_index', lambda T: sf.FrameGO(np.zeros((len(T), 1)), index=T))
    one('reindex_other', lambda T: sf.Series(np.arange(len(T)), index=labels_of(T), dtype=object).reindex(T))
    one('from_product', lambda T: sf.IndexHierarchyGO.from_product(T, ('p', 'q')))
    one('from_index_items', lambda T: sf.IndexHierarchyGO.from_index_items((('p', T),)))
    D['read_caches'] = lambda T: (T.values, T.positions, len(T), repr(T), [x in T for x in labels_of(T)], [])[-1]
    D['iter'] = lambda T: [('iter_list', sf.Series(list(T), dtype=object))]
    return D


INDEX_CORE_D = ['copy', 'ctor_static', 'ctor_go', 'values', 'slice_all', 'frame_go_columns', 'series_index', 'read_caches', 'union_none', 'relabel']
INDEX_MINI_D = ['copy', 'ctor_static', 'ctor_go', 'values', 'frame_go_columns', 'read_caches']


def ih_growth():
    import static_frame as sf
    G = {}
    reg = _reg(G)
    tail = lambda T: tuple(labels_of(T)[-1][2:]) if len(T) else tuple('p' for _ in range(T.depth - 2))

    def existing_outer_new_inner(T):
        """(outer label already present, inner labels present under ANOTHER outer label or new)"""
        ls = labels_of(T)
        outer = ls[0][0]
        inners = {l[1:] for l in ls if l[0] == outer}
        for l in ls:
            if l[1:] not in inners:
                return (outer,) + l[1:]
        k = 900
        while (outer, k) + tail(T) in ls:
            k += 1
        return (outer, k) + tail(T)

    @reg('append_new_outer')
    def _(h):
        T, lb = h.T, h.fresh()
        return dict(call=lambda: T.append(lb), new=[lb])

    @reg('append_existing_outer')
    def _(h):
        T = h.T
        if not len(T):
            return None
        lb = existing_outer_new_inner(T)
        return dict(call=lambda: T.append(lb), new=[lb])

    @reg('append_existing_outer_fresh_inner')
    def _(h):
        T = h.T
        if not len(T):
            return None
        h.k += 1
        lb = (labels_of(T)[0][0], 500 + h.k) + tail(T)
        return dict(call=lambda: T.append(lb), new=[lb])

    @reg('append_last_outer_fresh_inner')
    def _(h):
        T = h.T
        if not len(T):
            return None
        h.k += 1
        lb = (labels_of(T)[-1][0], 700 + h.k) + tail(T)
        return dict(call=lambda: T.append(lb), new=[lb])

    @reg('append_last_outer_held_mid_fresh_leaf')
    def _(h):
        # depth >= 3: outer label = the last one, an intermediate label held under it that is NOT the last there, a new leaf
        T = h.T
        ls = labels_of(T)
        if T.depth < 3 or not ls:
            return None
        last = ls[-1]
        for l in ls:
            if l[0] == last[0] and l[:-1] != last[:-1]:
                h.k += 1
                lb = tuple(l[:-1]) + ('leaf%d' % h.k if isinstance(l[-1], str) else 800 + h.k,)
                return dict(call=lambda: T.append(lb), new=[lb])
        return None

    @reg('append_last_path_fresh_leaf')
    def _(h):
        # depth >= 3: every label but the innermost is that of the LAST tuple held; only the leaf is new (the levels between root and leaf do not grow)
        T = h.T
        ls = labels_of(T)
        if T.depth < 3 or not ls:
            return None
        h.k += 1
        last = ls[-1]
        lb = tuple(last[:-1]) + ('leaf%d' % h.k if isinstance(last[-1], str) else 900 + h.k,)
        return dict(call=lambda: T.append(lb), new=[lb])

    @reg('append_list_label')
    def _(h):
        T, lb = h.T, h.fresh()
        return dict(call=lambda: T.append(list(lb)), new=[lb])

    @reg('append_dup')
    def _(h):
        T, lb = h.T, _existing(h.T)
        return None if lb is None else dict(call=lambda: T.append(lb), new=None)

    @reg('append_dup_last')
    def _(h):
        T = h.T
        ls = labels_of(T)
        return None if not ls else dict(call=lambda: T.append(ls[-1]), new=None)

    @reg('append_short')
    def _(h):
        T, lb = h.T, h.fresh()
        return dict(call=lambda: T.append(lb[:-1]), new=None)

    @reg('append_long')
    def _(h):
        T, lb = h.T, h.fresh()
        return dict(call=lambda: T.append(lb + ('extra',)), new=None)

    @reg('append_scalar')
    def _(h):
        T = h.T
        return dict(call=lambda: T.append('scalar'), new='any')

    @reg('append_unhashable')
    def _(h):
        T, lb = h.T, h.fresh()
        return dict(call=lambda: T.append((['u'],) + lb[1:]), new='any')

    mk = lambda T, labels: sf.IndexHierarchy.from_labels(labels, depth_reference=T.depth)

    @reg('extend')
    def _(h):
        T, a, b = h.T, h.fresh(), h.fresh()
        other = mk(T, [a, b])
        h.live.append(['extend_argument', other, snap(other)])
        return dict(call=lambda: T.extend(other), new=[a, b])

    @reg('extend_go')
    def _(h):
        T, a = h.T, h.fresh()
        other = sf.IndexHierarchyGO.from_labels([a], depth_reference=T.depth)
        h.live.append(['extend_argument_go', other, snap(other)])
        return dict(call=lambda: T.extend(other), new=[a])

    @reg('extend_existing_outer')
    def _(h):
        T = h.T
        if not len(T):
            return None
        h.k += 1
        a, b = (labels_of(T)[0][0], 300 + h.k) + tail(T), ('m%d' % h.k, 1) + tail(T)
        other = mk(T, [a, b])
        return dict(call=lambda: T.extend(other), new=[a, b])

    @reg('extend_partial_dup')
    def _(h):
        T, a, lb = h.T, h.fresh(), _existing(h.T)
        if lb is None:
            return None
        other = mk(T, [a, lb])
        return dict(call=lambda: T.extend(other), new=None)

    @reg('extend_all_dup')
    def _(h):
        T = h.T
        if not len(T):
            return None
        other = sf.IndexHierarchy(T)
        return dict(call=lambda: T.extend(other), new=None)

    @reg('extend_self')
    def _(h):
        T = h.T
        return None if not len(T) else dict(call=lambda: T.extend(T), new=None)

    @reg('extend_wrong_depth')
    def _(h):
        T, a = h.T, h.fresh()
        other = sf.IndexHierarchy.from_labels([a + ('extra',)])
        return dict(call=lambda: T.extend(other), new=None)

    @reg('extend_empty')
    def _(h):
        T = h.T
        other = mk(T, [])
        return dict(call=lambda: T.extend(other), new=[])

    @reg('extend_wrong_type')
    def _(h):
        T, a = h.T, h.fresh()
        return dict(call=lambda: T.extend([a]), new='any')

    @reg('extend_flat_index')
    def _(h):
        T = h.T
        return dict(call=lambda: T.extend(sf.Index(('zz1', 'zz2'))), new='any')

    return G


IH_CORE_G = ['append_new_outer', 'append_existing_outer', 'append_dup', 'extend', 'extend_partial_dup', 'grow_derived', 'append_short', 'append_last_path_fresh_leaf']
IH_MINI_G = ['append_new_outer', 'append_existing_outer', 'append_dup', 'extend_partial_dup', 'grow_derived']


def ih_derive():
    import static_frame as sf
    D = {}
    one = lambda nm, f: D.__setitem__(nm, lambda T: [(nm, f(T))])
    one('copy', lambda T: T.copy())
    one('copy_module', lambda T: copy.copy(T))
    one('deepcopy', lambda T: copy.deepcopy(T))
    one('pickle', lambda T: pickle.loads(pickle.dumps(T)))
    one('ctor_static', lambda T: sf.IndexHierarchy(T))
    one('ctor_go', lambda T: sf.IndexHierarchyGO(T))
    one('values', lambda T: T.values)
    one('positions', lambda T: T.positions)
    one('values_at_depth', lambda T: T.values_at_depth(0))
    one('slice_all', lambda T: T[:])
    one('iloc_head', lambda T: T.iloc[:1])
    one('iloc_all', lambda T: T.iloc[:])
    one('loc_all', lambda T: T.loc[:])
    one('rename', lambda T: T.rename('renamed'))
    one('relabel', lambda T: T.relabel(lambda x: x))
    one('sort', lambda T: T.sort(ascending=False))
    one('flat', lambda T: T.flat())
    one('level_drop', lambda T: T.level_drop(-1))
    one('level_add', lambda T: T.level_add('L'))
    one('rehierarch', lambda T: T.rehierarch(tuple(range(T.depth))[::-1]))
    one('to_frame', lambda T: T.to_frame())
    one('to_frame_go', lambda T: T.to_frame_go())
    one('union_self', lambda T: T.union(T))
    one('intersection_self', lambda T: T.intersection(T))
    one('astype', lambda T: T.astype(object))
    one('roll', lambda T: T.roll(1))
    one('dtypes', lambda T: T.dtypes)
    one('index_types', lambda T: T.index_types)
    one('series_index', lambda T: sf.Series(np.arange(len(T)), index=T))
    one('frame_columns', lambda T: sf.Frame(np.zeros((1, len(T))), columns=T))
    one('frame_go_columns', lambda T: sf.FrameGO(np.zeros((1, len(T))), columns=T))
    one('frame_go_index', lambda T: sf.FrameGO(np.zeros((len(T), 1)), index=T))
    D['read_caches'] = lambda T: (T.values, T.positions, len(T), repr(T), [x in T for x in labels_of(T)], T.depth, [])[-1]
    D['iter'] = lambda T: [('iter_list', sf.Series([repr(x) for x in T], dtype=object))]
    D['loc_reads'] = lambda T: ([T.loc_to_iloc(x) for x in labels_of(T)], T.loc_to_iloc(sf.HLoc[labels_of(T)[0][0]]), [])[-1]
    return D


IH_CORE_D = ['copy', 'ctor_static', 'ctor_go', 'values', 'iloc_all', 'frame_go_columns', 'read_caches', 'loc_reads', 'to_frame_go']
IH_MINI_D = ['copy', 'ctor_static', 'ctor_go', 'values', 'read_caches']


# ---------------------------------------------------------------------------------------------
# engine

FAMS = {
    'FrameGO': dict(growth=frame_growth, derive=frame_derive, core_g=FRAME_CORE_G, core_d=FRAME_CORE_D, mini_g=FRAME_MINI_G, mini_d=FRAME_MINI_D,
                    roots=['dict', 'auto', 'empty', 'hier', 'from_static', 'from_he', 'own_columns']),
    'IndexGO': dict(growth=index_growth, derive=index_derive, core_g=INDEX_CORE_G, core_d=INDEX_CORE_D, mini_g=INDEX_MINI_G, mini_d=INDEX_MINI_D,
                    roots=['str', 'int', 'auto', 'empty', 'from_static', 'date']),
    'IHGO': dict(growth=ih_growth, derive=ih_derive, core_g=IH_CORE_G, core_d=IH_CORE_D, mini_g=IH_MINI_G, mini_d=IH_MINI_D,
                 roots=['ab', 'product', 'from_static', 'depth3', 'depth3_last_root_two_mids']),
}
CLASSNAME = {'FrameGO': 'FrameGO', 'IndexGO': 'IndexGO', 'IHGO': 'IndexHierarchyGO'}
_TABLES = {}


def tables(fam):
    if fam not in _TABLES:
        _TABLES[fam] = (FAMS[fam]['growth'](), FAMS[fam]['derive']())
    return _TABLES[fam]


def method_and_group(fam, gname):
    """public method behind a growth action and the coarse class of its argument (both go into failure keys)"""
    if fam == 'FrameGO':
        meth = '__setitem__' if gname.startswith('set_') else ('extend_items' if gname.startswith('extend_items') else 'extend')
    else:
        meth = 'append' if gname.startswith('append') else 'extend'
    n = gname
    if 'equal_other_type' in n:
        grp = 'dup-equal-other-type'
    elif 'partial_dup' in n or 'dup_within' in n:
        grp = 'partial-dup'
    elif 'dup' in n or n.endswith('_self'):
        grp = 'dup'
    elif any(x in n for x in ('wrong_len', 'short', '2d', 'wrong_depth', 'long')):
        grp = 'missized'
    elif any(x in n for x in ('unhashable', 'wrong_type', 'malformed', 'failing', 'frame_value', 'scalar', 'flat_index', 'index_as_container',
                              'none', 'no_name', 'tuple', 'other_type')):
        grp = 'wrongtype'
    elif 'existing_outer' in n or 'last_outer' in n:
        grp = 'valid-existing-outer'
    else:
        grp = 'valid'
    return meth, grp


def simple_growth(T, k):
    """a definitely valid growth call on any grow-only container; returns the label appended"""
    import static_frame as sf
    if isinstance(T, sf.Frame):
        lb = fresh_label(T.columns, 5000 + k)
        T[lb] = 0
        return lb
    lb = fresh_label(T, 5000 + k)
    T.append(lb)
    return lb


def is_go(c):
    import static_frame as sf
    return isinstance(c, (sf.Frame, sf.Index, sf.IndexHierarchy)) and not c.STATIC


def _tstate_eq(a, b):
    return (all(a[k] == b[k] for k in a if k != 'labels') and labels_eq(a['labels'], b['labels'])
            and [_cell(x) for x in a['labels']] == [_cell(x) for x in b['labels']])


def _member_leak(c, added):
    """labels just appended elsewhere must not be found in an index that does not list them (shared hash map)"""
    import static_frame as sf
    idxs = [c] if isinstance(c, (sf.Index, sf.IndexHierarchy)) else ([c.index, c.columns] if isinstance(c, sf.Frame) else ([c.index] if isinstance(c, sf.Series) else []))
    for ix in idxs:
        for lb in added:
            try:
                if (lb in ix) and not any(label_eq(lb, x) for x in labels_of(ix)):
                    return lb
            except Exception:
                pass
    return None


def check_others(rep, h, what, rp, step, skip=None, added=()):
    """every live container that was not the target keeps its snapshot"""
    ok = True
    for name, c, before in h.live:
        if c is skip:
            continue
        try:
            after = snap(c)
            if after == before and added:
                leak = _member_leak(c, added)
                if leak is not None:
                    after = ('label found by `in` although not listed', repr(leak))
        except Exception as e:
            after = ('unreadable', repr(e))
        if after != before:
            ok = False
            k = f'C09:{h.fam}:shared:{name.split("[")[0]}'
            rep.fail(k, f'{what}: step {step!r} changed the live container {name!r} that was not its target: before {str(before)[:250]} after {str(after)[:250]}', dict(rp, key=k))
    if skip is not h.T:
        try:
            after = tstate(h.T)
            same = _tstate_eq(after, h.state)
            if same and added and _member_leak(h.T, added) is not None:
                after, same = ('label found by `in` although not listed', repr(added)), False
        except Exception as e:
            after, same = ('unreadable', repr(e)), False
        if not same:
            ok = False
            k = f'C09:{h.fam}:shared:root-changed-by:{step}'
            rep.fail(k, f'{what}: step {step!r} changed the root container although it was not the target: before {str(h.state)[:250]} after {str(after)[:250]}', dict(rp, key=k))
    return ok


def apply_growth(rep, h, gname, plan, what, rp):
    """run one growth call on the root and evaluate the contract; returns False when the history must stop"""
    T = h.T
    cls = CLASSNAME[h.fam]
    meth, grp = method_and_group(h.fam, gname)
    before = h.state
    raised = None
    try:
        plan['call']()
    except Exception as e:
        raised = e
    for a in plan.get('caller_arrays', ()):  # the caller keeps writing to the array it passed in
        try:
            a[...] = a[::-1].copy() if a.dtype.kind != 'O' else 'scribbled'
        except Exception:
            pass
    try:
        after = tstate(T)
        inc = coherent(T, after)
    except Exception as e:
        after = None
        inc = coherent(T) or f'unreadable: {e!r}'
    fail = lambda kind, msg: rep.fail(f'C09:{cls}.{meth}:{kind}:{grp}', f'{what}: {gname}: {msg}', dict(rp, key=f'C09:{cls}.{meth}:{kind}:{grp}'))
    if raised is not None:
        if after is None or not _tstate_eq(after, before):
            fail('not-atomic', f'raised {raised!r} but the container changed: labels before {before["labels"]!r} after {after["labels"] if after else None!r}; coherence: {inc}')
            return False
        if inc:
            fail('incoherent-after-failure', f'raised {raised!r}; the container equals its snapshot but is incoherent: {inc}')
            return False
        try:  # fully usable: a following valid growth call succeeds
            lb = simple_growth(T, h.k)
            h.k += 1
            probe_state = tstate(T)
            okp = labels_eq(probe_state['labels'], before['labels'] + [lb]) and coherent(T, probe_state) is None
            err = None
        except Exception as e:
            okp, err = False, e
        if not okp:
            fail('unusable-after-failure', f'raised {raised!r}; the container reads as unchanged, but a following valid growth call failed or mis-grew it ({err!r})')
            return False
        h.state = probe_state
        return check_others(rep, h, what, rp, gname, skip=T)
    if after is None or inc:
        fail('incoherent-after-growth', f'returned but the container is incoherent: {inc}')
        return False
    n_old = len(before['labels'])
    fixed = [x for x in before if x not in ('labels', 'cols', 'shape', 'positions')]
    old_ok = (all(after[x] == before[x] for x in fixed) and labels_eq(after['labels'][:n_old], before['labels'])
              and ('cols' not in before or after['cols'][:n_old] == before['cols'])
              and ('positions' not in before or (after['positions'][:n_old] == before['positions'] and after['positions'] == list(range(len(after['labels']))))))
    if not old_ok:
        fail('old-content-changed', f'returned but existing labels/values/dtypes/name/index changed: before {str(before)[:300]} after {str(after)[:300]}')
        return False
    added = after['labels'][n_old:]
    expect = plan['new']
    if expect is None:
        fail('accepted-duplicate-or-missized', f'must be rejected (duplicate label or mis-sized value) but returned; labels before {before["labels"]!r} after {after["labels"]!r}')
        return False
    if expect != 'any' and not labels_eq(added, expect):
        fail('wrong-labels-appended', f'appended {added!r} instead of {expect!r} (labels before: {before["labels"]!r})')
        return False
    if expect != 'any' and plan.get('vals') and 'cols' in after:
        for j, v in enumerate(plan['vals']):
            got = after['cols'][n_old + j]
            if got != fas(np.asarray(v)) and not _vals_close(got, v):
                fail('wrong-values-appended', f'stored {got!r} for new column {expect[j]!r}, expected {fas(np.asarray(v))!r}')
                return False
    h.state = after
    return check_others(rep, h, what, rp, gname, skip=T, added=[x for x in added if not _is_missing(x)])


def _vals_close(got, v):
    """same values up to dtype (the property fixes the values of a new column, not its dtype)"""
    try:
        v = np.asarray(v)
        if got[0] != v.shape:
            return False
        if got[1] == 'O' or v.dtype.kind == 'O':
            return got[1] == 'O' and got[2] == fas(v.astype(object))[2]
        g = np.frombuffer(got[2], dtype=np.dtype(got[1])).reshape(got[0])
        return bool(np.array_equal(g, v, equal_nan=g.dtype.kind in 'fc' and v.dtype.kind in 'fc'))
    except Exception:
        return False


def run_history(rep, fam, rootname, hist):
    """returns (steps evaluated, growth calls applied)"""
    G, D = tables(fam)
    rp = dict(fam=fam, root=rootname, history=list(hist))
    what = f'{fam} root={rootname} history={"; ".join(hist)}'
    try:
        h = H(fam, rootname)
    except Exception:
        rep.error(f'building root {fam}/{rootname}')
        return 0, 0
    steps = grew = 0
    for si, step in enumerate(hist):
        steps += 1
        w = f'{what} [step {si + 1}]'
        if step in D:
            try:
                out = D[step](h.T)
            except Exception:
                out = None  # a failing derivation adds nothing; the frame condition is still checked
            if not check_others(rep, h, w, rp, step, skip=None):
                return steps, grew
            for name, c in out or ():
                if c is h.T or any(c is e[1] for e in h.live):
                    continue  # the operation handed back an existing object: not "another container"
                try:
                    h.live.append([name, c, snap(c)])
                except Exception:
                    continue
                if is_go(c):
                    h.last_go = (name, c)
            continue
        if step == 'grow_derived':
            if h.last_go is None:
                continue
            name, d = h.last_go
            entry = [e for e in h.live if e[1] is d][0]
            err = None
            try:
                before = tstate(d)
                lb = simple_growth(d, 100 + si)
                after = tstate(d)
                good = labels_eq(after['labels'], before['labels'] + [lb]) and coherent(d, after) is None
            except Exception as e:
                good, err = False, e
            if not good:
                k = f'C09:{fam}:derived-go-not-growable:{name.split("[")[0]}'
                rep.fail(k, f'{w}: a valid growth call on the derived grow-only container {name!r} failed or mis-grew it ({err!r})', dict(rp, key=k))
                return steps, grew
            entry[2] = snap(d)
            grew += 1
            if not check_others(rep, h, w, rp, f'grow_derived({name.split("[")[0]})', skip=d, added=[lb]):
                return steps, grew
            continue
        try:
            plan = G[step](h)
        except Exception:
            rep.error(f'planning {step} in {what}')
            return steps, grew
        if plan is None:
            continue
        grew += 1
        if not apply_growth(rep, h, step, plan, w, rp):
            return steps, grew
    return steps, grew


def histories(tier):
    """(fam, root, history) in a deterministic order; every history ends with a growth step (a trailing derivation observes nothing new).
    full = all growth actions + all derivations; core/mini = the subsets named *_CORE_* / *_MINI_*."""
    thorough = tier != 'quick'
    for fam, cfg in FAMS.items():
        G, D = tables(fam)
        gs = list(G) + ['grow_derived']
        full = gs + list(D)
        core = cfg['core_g'] + cfg['core_d']
        mini = cfg['mini_g'] + cfg['mini_d']
        for ri, root in enumerate(cfg['roots']):
            main = ri == 0
            for g in gs:
                yield fam, root, (g,)
            for a in full:
                for g in gs:
                    if thorough or main or a in core or g in cfg['core_g']:
                        yield fam, root, (a, g)
            if thorough:
                l3 = (full, full, gs) if main else (core, core, gs)
                l4 = (core, core, core, gs) if main else (mini, mini, mini, cfg['core_g'])
                l5 = (mini, mini, mini, mini, cfg['core_g']) if main else None
            else:
                l3 = (core, core, gs) if main else (cfg['core_d'], cfg['core_g'], cfg['core_g'])
                l4 = (mini, mini, mini, cfg['core_g']) if main else None
                l5 = None
            for spec in (l3, l4, l5):
                if spec is not None:
                    for hist in itertools.product(*spec):
                        yield fam, root, hist


def run(repo, task):
    import warnings
    tier = task.get('tier', 'quick')
    rep = Report('C09-growonly', task,
                 rule='a case is one step (growth call, derivation, or growth of a derived grow-only container) of one history on a freshly built root; '
                      'non-trivial when the history applied at least one growth call (a duplicate argument needs an existing label, etc.)',
                 bound='roots: FrameGO x7 (<= 3 rows, <= 3 initial columns; flat/auto-integer/hierarchical/no columns; converted from Frame and FrameHE; '
                       'built over a caller-held IndexGO), IndexGO x6, IndexHierarchyGO x5 (depth 2-3); alphabet: every growth argument class and every '
                       'derivation in frame_growth/frame_derive, index_*, ih_*; histories: all of length <= 2 on the first root of each family (thorough: every root), on the other roots those with a core action in either position; ' +
                       ('length 3 core x core x all-growth on the first root of a family and core-derivation x core-growth x core-growth on the others; '
                        'length 4 over the mini alphabet on the first root' if tier == 'quick' else
                        'length 3 full x full x all-growth on the first root and core x core x all-growth on the others; length 4 core^3 x all-growth on the '
                        'first root, mini^3 x core-growth on the others; length 5 over the mini alphabet on the first root'),
                 budget_s=38 if tier == 'quick' else 570)
    with warnings.catch_warnings():
        warnings.simplefilter('ignore')
        old = np.seterr(all='ignore')
        try:
            for fam, root, hist in rep.shard(histories(tier)):
                try:
                    n, grew = run_history(rep, fam, root, hist)
                except Exception:
                    rep.error(f'harness, {fam}/{root} history {hist}')
                    n, grew = 1, 0
                for i in range(n):
                    rep.count(distinct_key=(fam, root, hist, i) if grew else None,
                              sample=dict(family=fam, root=root, history=list(hist)) if i == 0 else None)
        finally:
            np.seterr(**old)
    return rep.done()


def replay(repo, rp):
    import warnings
    rep = Report('C09-replay', dict(tier='thorough'), rule='', bound='')
    with warnings.catch_warnings():
        warnings.simplefilter('ignore')
        old = np.seterr(all='ignore')
        try:
            run_history(rep, rp['fam'], rp['root'], tuple(rp['history']))
        finally:
            np.seterr(**old)
    if rep.errors:
        return dict(outcome='error', detail=rep.errors)
    key = rp.get('key')
    hit = [f for f in rep.failures.values() if key is None or f['key'] == key]
    return dict(outcome='fail' if hit else 'pass', failures=[dict(key=f['key'], what=f['what'][:700]) for f in hit])
