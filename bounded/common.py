"""Shared infrastructure for the bounded stand-ins (run-time contract checking of the REAL package
over an exhaustively enumerated small scope).  Always labelled *bounded*; never counted as proved.

A stand-in is a function  run(repo_root, task) -> dict  built with `Report`:

    def run(repo, task):
        rep = Report('C08-assign', task, rule='...how cases are enumerated / what is non-trivial...',
                     bound='m <= 4 columns, rows <= 3, ...')
        for case in rep.shard(enumerate_cases()):      # deterministic sharding over worker processes
            with rep.case(case_id, sample=...):        # counts an evaluation; exceptions inside = checker fault
                ...
                rep.check(cond, key='C08:assign:<stable-id>', what='human text', replay=dict(...))
        return rep.done()

`key` identifies the *defect class* (stable across runs: no memory addresses, no timings); `replay`
must hold plain JSON data sufficient to re-run the failing case through `replay(repo, rp)`.
"""
from __future__ import annotations
import itertools
import time
import traceback

import numpy as np


class Report:
    def __init__(self, name, task, rule, bound, budget_s=None):
        self.name, self.task, self.rule, self.bound = name, task, rule, bound
        self.evaluations = 0
        self.nontrivial = set()
        self.samples = []
        self.failures = {}
        self.t0 = time.time()
        tier = task.get('tier', 'quick')
        self.budget = budget_s if budget_s is not None else (60 if tier == 'quick' else 900)
        self.exhausted = True
        self.errors = []
        self.assumptions = set()
        self.trusted = set()

    # deterministic sharding: case i goes to shard i % nshards
    def shard(self, it):
        s, n = self.task.get('shard', 0), self.task.get('nshards', 1)
        for i, x in enumerate(it):
            if i % n == s:
                if time.time() - self.t0 > self.budget:
                    self.exhausted = False
                    return
                yield x

    def count(self, distinct_key=None, sample=None):
        self.evaluations += 1
        if distinct_key is not None:
            self.nontrivial.add(distinct_key)
        if sample is not None and len(self.samples) < 3:
            self.samples.append(sample)

    def check(self, cond, key, what, replay=None):
        if cond:
            return True
        if key not in self.failures and len(self.failures) < 25:
            self.failures[key] = dict(key=key, what=what, replay=dict(replay or {}, task=self.name))
        return False

    def fail(self, key, what, replay=None):
        return self.check(False, key, what, replay)

    def error(self, where):
        if len(self.errors) < 5:
            self.errors.append(f'{where}: {traceback.format_exc(limit=6)}')

    def done(self):
        out = dict(name=self.name, status='ok', evaluations=self.evaluations, distinct=len(self.nontrivial),
                   rule=self.rule, bound=self.bound + ('' if self.exhausted else ' [time budget reached: enumeration truncated]'),
                   samples=self.samples, failures=list(self.failures.values()),
                   assumptions=sorted(self.assumptions), trusted=sorted(self.trusted), items=[],
                   wall_s=round(time.time() - self.t0, 2))
        if self.errors:
            out['status'] = 'checker-fault'
            out['detail'] = '\n'.join(self.errors)
        return out


# ---------------------------------------------------------------------------------------------
# block layouts

def compositions(m):
    """all ways to cut m columns into consecutive blocks: tuples of widths summing to m"""
    if m == 0:
        yield ()
        return
    for first in range(1, m + 1):
        for rest in compositions(m - first):
            yield (first,) + rest


def layouts(m, with_1d=True):
    """every layout: list of (width, as_1d) — width-1 blocks can be stored 1-D or 2-D"""
    for comp in compositions(m):
        ones = [i for i, w in enumerate(comp) if w == 1]
        choices = itertools.product((True, False), repeat=len(ones)) if with_1d else [tuple(False for _ in ones)]
        for ch in choices:
            flags = dict(zip(ones, ch))
            yield tuple((w, flags.get(i, False)) for i, w in enumerate(comp))


def blocks_for(columns, layout):
    """columns: list of 1-D arrays (one per column); layout from layouts().  Adjacent columns placed in one
    2-D block are consolidated with the resolved dtype, so callers that need per-column dtypes to survive must
    only group same-dtype columns (see `layouts_dtype_safe`)."""
    out, pos = [], 0
    for w, as1d in layout:
        cols = columns[pos:pos + w]
        pos += w
        if w == 1 and as1d:
            out.append(np.array(cols[0]))
        else:
            out.append(np.column_stack(cols) if len(cols[0]) else np.empty((0, w), dtype=cols[0].dtype))
    return out


def layouts_dtype_safe(columns, with_1d=True):
    """layouts in which every multi-column block groups columns of identical dtype only"""
    m = len(columns)
    for lay in layouts(m, with_1d):
        pos, ok = 0, True
        for w, _ in lay:
            if len({columns[i].dtype for i in range(pos, pos + w)}) > 1:
                ok = False
                break
            pos += w
        if ok:
            yield lay


def frame_from(columns, layout, index=None, column_labels=None, cls=None, name=None):
    import static_frame as sf
    from static_frame.core.type_blocks import TypeBlocks
    cls = cls or sf.Frame
    rows = len(columns[0]) if columns else (len(index) if index is not None else 0)
    tb = TypeBlocks.from_blocks(blocks_for(columns, layout), shape_reference=(rows, 0))
    return cls(tb, index=index, columns=column_labels, name=name, own_data=True)


# ---------------------------------------------------------------------------------------------
# snapshots (deep, value + flag based)

def arr_snap(a):
    a = np.asarray(a)
    return (a.shape, str(a.dtype), tuple(_cell(x) for x in a.ravel().tolist()) if a.dtype.kind != 'O'
            else tuple(_cell(x) for x in a.ravel()))


def _cell(x):
    if isinstance(x, float) and x != x:
        return 'NaN'
    if isinstance(x, (np.datetime64, np.timedelta64)) and np.isnat(x):
        return 'NaT'
    if isinstance(x, np.generic):
        x = x.item()
        if isinstance(x, float) and x != x:
            return 'NaN'
    return (type(x).__name__, x) if not isinstance(x, (list, dict, set)) else (type(x).__name__, repr(x))


def snapshot(c):
    """deep observable state of a container: class, name, labels, values, per-column dtypes"""
    import static_frame as sf
    if isinstance(c, sf.Frame):
        return ('Frame', type(c).__name__, _cell(c.name) if not isinstance(c.name, tuple) else c.name, snapshot(c.index), snapshot(c.columns),
                tuple(arr_snap(b) for b in c._blocks._blocks), c.shape)
    if isinstance(c, sf.Series):
        return ('Series', type(c).__name__, c.name, snapshot(c.index), arr_snap(c.values))
    if isinstance(c, sf.IndexHierarchy):
        return ('IH', type(c).__name__, c.name, tuple(map(tuple, c.values.tolist())) if len(c) else (), c.depth)
    if isinstance(c, sf.Index):
        return ('Index', type(c).__name__, c.name, arr_snap(c.values))
    if isinstance(c, np.ndarray):
        return ('ndarray', arr_snap(c))
    return ('obj', repr(c))


def reachable_arrays(c):
    """every ndarray directly obtainable from a container through its public surface"""
    import static_frame as sf
    out = []
    if isinstance(c, sf.Frame):
        out.append(c.values)
        out.extend(c._blocks._blocks)
        out.extend(reachable_arrays(c.index))
        out.extend(reachable_arrays(c.columns))
    elif isinstance(c, sf.Series):
        out.append(c.values)
        out.extend(reachable_arrays(c.index))
    elif isinstance(c, sf.IndexHierarchy):
        out.append(c.values)
        out.append(c.positions)
        for d in range(c.depth):
            out.append(c.values_at_depth(d))
    elif isinstance(c, sf.Index):
        out.append(c.values)
        out.append(c.positions)
    elif isinstance(c, np.ndarray):
        out.append(c)
    return out


def same_cell(a, b):
    """strict cell equality with NaN == NaN, NaT == NaT, and no bool/int/str confusion"""
    if _cell(a) == _cell(b):
        return True
    if _num(a) and _num(b) and not isinstance(a, (bool, np.bool_)) and not isinstance(b, (bool, np.bool_)):
        # as Python numbers: int vs float is then compared exactly (NumPy would first round the int to float64)
        pa = a.item() if isinstance(a, np.generic) else a
        pb = b.item() if isinstance(b, np.generic) else b
        return pa == pb
    return False


def _num(x):
    return isinstance(x, (int, float, np.integer, np.floating)) and not isinstance(x, (bool, np.bool_))
