"""C05 bounded stand-in: the tree view and the table view of an IndexHierarchy agree, and per-level (HLoc)
selection is exact.

Reference model (from the property statement): a hierarchy IS a list of equal-length tuples `rows`.
  views      list(ih), ih.values, values_at_depth(d), len, depth, iloc[i], reversed, `tuple in ih`,
             loc_to_iloc(tuple) == i  all describe `rows`, however the index was built and after every
             grow-only append / extend (caches read or not read in between);
  selection  HLoc[s_0, .., s_k]: position i is selected iff rows[i][d] matches s_d for every d, where a label matches
             itself, a list matches its members, a slice a:b matches the labels between a and b (inclusive) in the
             order of the node that holds them, ':' matches all, a Boolean array (innermost depth / whole key)
             matches the positions that are True;  the result is in index order, except that a list selector orders
             the matches of its level by the list (nested: outer levels first);
  containers Series / Frame rows (and Frame columns) under loc[HLoc[..]] are exactly those rows.
Outside the claim (not evaluated): selectors matching nothing, Boolean masks at outer depths, label slices one of
whose end points is missing from a node that the outer selectors reach.
"""
from __future__ import annotations
import datetime
import itertools

import numpy as np
from .common import Report
from .c02_index_bijection import norm, eq, eq_seq, obs, is_intlike, is_tree_order, Sink, ns_ints_to_dt, native, ctor_objs, tree_dict, is_product

PID = 'C05'
D = datetime.date

ALPH = {
    'U': ['b', 'a', 'c'],
    'S': ['x', 'y', 'z'],
    'i': [2, 1, 3],
    'I': [0, 1, 2],
    'D': [D(2020, 1, 2), D(2020, 1, 1), D(2020, 1, 3)],
    'M': [D(2021, 5, 1), D(2020, 5, 1), D(2022, 5, 1)],
    'W': ['x', 'long', 'yy'],     # strings of different widths: a depth's arrays differ in dtype between parents
    'F': [1, 2, 2.5],             # ints under one parent, floats under another
}
ABSENT = {'U': 'zz', 'S': 'qq', 'i': 77, 'I': 88, 'D': D(2031, 1, 1), 'M': D(2033, 1, 1), 'W': 'wwwwww', 'F': 99}
CTOR = {'U': 'Index', 'S': 'Index', 'i': 'Index', 'I': 'Index', 'D': 'IndexDate', 'M': 'IndexDate', 'W': 'Index', 'F': 'Index'}

PATTERNS = {2: ['Ui', 'iU', 'Di', 'UD', 'II', 'DM'], 3: ['UiS', 'DUi', 'IiU', 'SDI', 'UWi', 'SFU', 'iWF'], 4: ['UiSI', 'DiUI', 'UWFI']}


def make_rows(shape, pattern, shift):
    rows = []

    def rec(node, d, prefix, pidx):
        letters = ALPH[pattern[d]]
        if isinstance(node, int):
            for j in range(node):
                rows.append(prefix + (letters[(j + shift * pidx) % 3],))
        else:
            for j, child in enumerate(node):
                rec(child, d + 1, prefix + (letters[(j + shift * pidx) % 3],), j)
    rec(shape, 0, (), 0)
    return rows


def shapes(depth, tier):
    if depth == 2:
        for k in (1, 2, 3):
            yield from itertools.product((1, 2, 3), repeat=k)
    elif depth == 3:
        per = [(1,), (2,), (1, 1), (1, 2), (2, 1), (2, 2)]
        big = [(3,), (1, 3), (3, 1), (2, 3), (1, 1, 1), (3, 2, 1)]
        if tier == 'quick':
            for a in per:
                yield (a,)
            for a in per:
                for b in per:
                    yield (a, b)
            yield ((3,), (1, 3))
            yield ((1, 1, 1), (2,), (3, 1))
            yield ((2, 3), (1,), (1, 2))
        else:
            allp = per + big
            for a in allp:
                yield (a,)
            for a in allp:
                for b in allp:
                    yield (a, b)
            for a in per:
                for b in per:
                    for c in per:
                        yield (a, b, c)
    else:
        base = [(((1,),),), (((2,), (1,)),), (((1, 2),), ((2,),)), (((1,), (2, 1)), ((1, 1),)), (((2,),), ((1,),), ((1, 2), (1,))), (((3,), (1,)), ((2, 2),))]
        yield from base
        if tier != 'quick':
            per = [((1,),), ((2,),), ((1, 1),), ((1,), (2,)), ((2, 1), (1,))]
            for a in per:
                for b in per:
                    yield (a, b)


def tree_cases(tier):
    for depth in (2, 3, 4):
        pats = PATTERNS[depth]
        for si, shape in enumerate(shapes(depth, tier)):
            if tier == 'quick':
                chosen = [(pats[si % len(pats)], si % 2), (pats[(si + 1 + si // len(pats)) % len(pats)], (si + 1) % 2)] if depth == 2 else [(pats[si % len(pats)], si % 2)]
            else:
                chosen = [(p, s) for p in pats for s in (0, 1)] if depth == 2 else [(pats[si % len(pats)], si % 2)]
            seen = set()
            for pat, shift in chosen:
                if (pat, shift) in seen:
                    continue
                seen.add((pat, shift))
                yield dict(area='tree', depth=depth, shape=shape, pattern=pat, shift=shift)


def ctor_names(pattern):
    names = tuple(CTOR[c] for c in pattern)
    return names if any(n != 'Index' for n in names) else None


# ---------------------------------------------------------------------------------------------
# construction routes

STATIC_ROUTES = ('from_labels', 'from_labels-gen', 'from_tree', 'from_product', 'from_index_items', 'from_labels_delimited', 'iloc-selection', 'iloc-bool-selection',
                 'level_add', 'rehierarch', 'from_type_blocks', 'set_index_hierarchy', 'go-to-static', 'loc-hloc-selection', 'sort-of-shuffled', 'union-of-halves', 'level_drop-outer', 'level_drop-outer-cached', 'level_drop-inner', 'level_drop-inner-cached')


def super_rows(rows, pattern):
    """rows plus extra rows (a new leaf in the last node, a new last subtree); returns (super, positions of rows)"""
    depth = len(rows[0])
    extra_leaf = rows[-1][:-1] + (ABSENT[pattern[-1]],)
    extra_tree = (ABSENT[pattern[0]],) + rows[0][1:]
    sup = [extra_tree] + list(rows) + [extra_leaf]
    return sup, list(range(1, len(rows) + 1))


def build(route, rows, pattern, go=False):
    import static_frame as sf
    cls = sf.IndexHierarchyGO if go else sf.IndexHierarchy
    names = ctor_names(pattern)
    ic = ctor_objs(names, go)
    kw = dict(index_constructors=ic) if ic else {}
    depth = len(rows[0])
    if route == 'from_labels':
        return cls.from_labels(list(rows), **kw)
    if route == 'from_labels-gen':
        return cls.from_labels((tuple(r) for r in rows), **kw)
    if route == 'from_tree':
        if ic:
            return cls(cls._LEVEL_CONSTRUCTOR.from_tree(tree_dict(rows), index_constructors=ic))
        return cls.from_tree(tree_dict(rows))
    if route == 'from_product':
        levels = is_product(rows)
        return cls.from_product(*[(ic[d](lv) if ic else lv) for d, lv in enumerate(levels)])
    if route == 'from_index_items':
        groups = {}
        for r in rows:
            groups.setdefault(r[0], []).append(r[1])
        inner = ic[1] if ic else (sf.IndexGO if go else sf.Index)
        return cls.from_index_items(((k, inner(v)) for k, v in groups.items()), index_constructor=(ic[0] if ic else None))
    if route == 'from_labels_delimited':
        return cls.from_labels_delimited(['|'.join(repr(v) for v in r) for r in rows], delimiter='|')
    if route == 'iloc-selection':
        sup, pos = super_rows(rows, pattern)
        return cls.from_labels(sup, **kw).iloc[pos]
    if route == 'iloc-bool-selection':
        sup, pos = super_rows(rows, pattern)
        mask = np.zeros(len(sup), dtype=bool)
        mask[pos] = True
        return cls.from_labels(sup, **kw).iloc[mask]
    if route == 'loc-hloc-selection':
        sup, pos = super_rows(rows, pattern)
        outers = list(dict.fromkeys(r[0] for r in rows))
        base = cls.from_labels(sup[:-1], **kw)  # without the extra leaf
        return base.loc[sf.HLoc[outers]]
    if route == 'level_add':
        sub = [r[1:] for r in rows]
        icsub = ctor_objs(names[1:], go) if names and any(n != 'Index' for n in names[1:]) else None
        inner = cls.from_labels(sub, **(dict(index_constructors=icsub) if icsub else {}))
        out = inner.level_add(rows[0][0])
        return out
    if route == 'rehierarch':
        dm = list(range(depth))[::-1]
        namesr = tuple(names[i] for i in dm) if names else None
        icr = ctor_objs(namesr, go)
        base = cls.from_labels(order_as_tree([tuple(r[i] for i in dm) for r in rows]), **(dict(index_constructors=icr) if icr else {}))
        return base.rehierarch(dm)
    if route == 'from_type_blocks':
        from static_frame.core.type_blocks import TypeBlocks
        cols = []
        for d in range(depth):
            col = [r[d] for r in rows]
            cols.append(np.array(col, dtype='datetime64[D]') if pattern[d] in 'DM' else np.array(col))
        return cls._from_type_blocks(TypeBlocks.from_blocks(cols), **kw)
    if route == 'set_index_hierarchy':
        f = sf.Frame.from_records([list(r) + [0] for r in rows], columns=tuple(range(depth + 1)))
        ix = f.set_index_hierarchy(list(range(depth)), **kw).index
        return cls(ix) if go else ix
    if route == 'go-to-static':
        g = sf.IndexHierarchyGO.from_labels(list(rows[:-1]), **(dict(index_constructors=ctor_objs(names, True)) if names else {})) if len(rows) > 1 else None
        if g is None:
            return cls(sf.IndexHierarchyGO.from_labels(list(rows), **(dict(index_constructors=ctor_objs(names, True)) if names else {})))
        g.append(rows[-1])
        return cls(g)
    if route in ('level_drop-inner', 'level_drop-inner-cached'):
        # every row of `rows` gets leaves below it (ragged: 2, 1, 3, 2, 1, 3 ...); dropping the leaf depth gives `rows`, each once
        deep = [tuple(r) + (k,) for i, r in enumerate(rows) for k in range((2, 1, 3)[i % 3])]
        icd = (list(ic) + [sf.IndexGO if go else sf.Index]) if ic else None
        base = cls.from_labels(deep, **(dict(index_constructors=icd) if icd else {}))
        if route.endswith('cached'):
            base.values
        return base.level_drop(-1)
    if route in ('level_drop-outer', 'level_drop-outer-cached'):
        # `rows` under two extra outer parents (the first half of the first-depth groups under one, the rest under the other); dropping the outer depth gives `rows`
        firsts = list(dict.fromkeys(norm(r[0]) for r in rows))
        half = (len(firsts) + 1) // 2
        deep = [(('P0' if firsts.index(norm(r[0])) < half else 'P1'),) + tuple(r) for r in rows]
        icd = ([sf.IndexGO if go else sf.Index] + list(ic)) if ic else None
        base = cls.from_labels(deep, **(dict(index_constructors=icd) if icd else {}))
        if route.endswith('cached'):
            base.values      # the label table is realised before the drop (the drop then slices it instead of rebuilding)
        return base.level_drop(1)
    if route == 'sort-of-shuffled':
        srt = sorted(rows)
        shuffled = order_as_tree(srt[::-1])
        return cls.from_labels(shuffled, **kw).sort()
    if route == 'union-of-halves':
        srt = sorted(rows)
        h = max(1, len(srt) // 2)
        a = cls.from_labels(srt[:h], **kw)
        b = cls.from_labels(srt[h:] or srt[:1], **kw)
        return a.union(b)
    raise KeyError(route)


def order_as_tree(rows):
    """stable regrouping so that every prefix is contiguous (first-appearance order)"""
    rows = list(rows)
    if not rows:
        return rows
    depth = len(rows[0])

    def rec(rs, d):
        if d >= depth - 1:
            return rs
        groups = {}
        for r in rs:
            groups.setdefault(norm(r[d]), []).append(r)
        out = []
        for g in groups.values():
            out.extend(rec(g, d + 1))
        return out
    return rec(rows, 0)


def route_model(route, rows):
    """('model', rows) when the route promises exactly `rows`; ('set', rows) when only the label set is fixed"""
    if route in ('rehierarch',):
        return ('set', rows)
    if route in ('sort-of-shuffled', 'union-of-halves'):
        return ('model', sorted(rows))
    return ('model', rows)


def route_applies(route, rows, pattern):
    depth = len(rows[0])
    if route == 'from_product':
        return is_product(rows) is not None
    if route == 'from_index_items':
        return depth == 2
    if route == 'from_labels_delimited':
        return not any(c in 'DM' for c in pattern)
    if route == 'level_add':
        return depth >= 3 and len({norm(r[0]) for r in rows}) == 1
    if route in ('level_drop-inner', 'level_drop-inner-cached'):
        return depth <= 3
    if route in ('level_drop-outer', 'level_drop-outer-cached'):
        return len({norm(r[0]) for r in rows}) >= 2 and depth <= 3
    if route in ('sort-of-shuffled', 'union-of-halves'):
        return True
    return True


# ---------------------------------------------------------------------------------------------
# views contract

def views(sink, ih, rows, rp, area):
    """every view of `ih` describes `rows`"""
    n = len(rows)
    depth = len(rows[0])

    def K(c):
        return f'{PID}:{area}:{c}'

    def seq(name, thunk, expect, conv=list):
        o = obs(thunk)
        if o[0] == 'exc':
            return sink.fail(K(f'{name}-raises:{type(o[1]).__name__}'), f'{name} raises {o[1]!r}; rows {rows!r}', rp)
        try:
            got = conv(o[1])
        except Exception as e:
            return sink.fail(K(f'{name}-raises:{type(e).__name__}'), f'{name} unusable: {e!r}', rp)
        if not eq_seq(got, expect) and eq_seq(ns_ints_to_dt(got, expect), expect):
            return sink.fail(f'{PID}:ns-datetime-shown-as-int', f'{name} presents {got!r}, expected {expect!r}', rp)
        return sink.check(eq_seq(got, expect), K(name), f'{name} presents {got!r}, expected {expect!r}', rp)

    ok = True
    o = obs(lambda: (len(ih), ih.depth, ih.shape))
    ok &= sink.check(o[0] == 'ok' and o[1][0] == n and o[1][1] == depth and tuple(o[1][2]) == (n, depth), K('len-depth-shape'),
                     f'len/depth/shape give {o[1]!r}, expected {n}, {depth}, {(n, depth)} for rows {rows!r}', rp)
    ok &= bool(seq('iter', lambda: list(ih), rows))
    ok &= bool(seq('values', lambda: ih.values, rows, lambda v: [tuple(r) for r in v]))
    for d in range(depth):
        ok &= bool(seq(f'values_at_depth', (lambda d=d: ih.values_at_depth(d)), [r[d] for r in rows]))
    ok &= bool(seq('values_at_depth-multi', lambda: ih.values_at_depth(list(range(depth))), rows, lambda v: [tuple(r) for r in v]))
    ok &= bool(seq('reversed', lambda: list(reversed(ih)), rows[::-1]))
    ok &= bool(seq('iloc', lambda: [ih.iloc[i] for i in range(n)], rows))
    ok &= bool(seq('iloc-negative', lambda: [ih.iloc[i - n] for i in range(n)], rows))
    ok &= bool(seq('positions', lambda: ih.positions, list(range(n))))
    ok &= bool(seq('iter_label', lambda: list(ih.iter_label()), rows))
    ok &= bool(seq('levels-values', lambda: ih._levels.values, rows, lambda v: [tuple(r) for r in v]))
    ok &= bool(seq('levels-iter', lambda: list(ih._levels), rows))
    for d in range(depth):
        def widths(d=d):
            out = []
            for lab, w in ih.label_widths_at_depth(d):
                out.extend([lab] * w)
            return out
        ok &= bool(seq('label_widths_at_depth', widths, [r[d] for r in rows]))
    o = obs(lambda: list(ih))
    presented = o[1] if o[0] == 'ok' and len(o[1]) == n else [None] * n
    for i, r in enumerate(rows):
        forms = []
        if presented[i] is not None and eq(presented[i], r):
            forms.extend([presented[i], native(presented[i])])
        forms.append(r)  # the hierarchy's datetime levels accept datetime.date keys (IndexDate): used by every selector below
        for form in forms:
            o = obs(lambda: ih.loc_to_iloc(form))
            if o[0] == 'exc':
                ok &= bool(sink.fail(K(f'lookup-raises:{type(o[1]).__name__}'), f'loc_to_iloc({form!r}) raises {o[1]!r}; it is row {i} of {rows!r}', rp))
            else:
                ok &= bool(sink.check(is_intlike(o[1]) and o[1] == i, K('lookup'), f'loc_to_iloc({form!r}) == {o[1]!r}, expected {i}; rows {rows!r}', rp))
            o = obs(lambda: form in ih)
            ok &= bool(sink.check(o[0] == 'ok' and bool(o[1]), K('contains'), f'({form!r} in ih) gives {o[1]!r}; rows {rows!r}', rp))
    if not ok:
        return False
    # non-members: recombinations, wrong lengths
    cand = []
    for a in rows[:5]:
        for b in rows[:5]:
            cand.append(a[:-1] + b[-1:])
            cand.append(b[:1] + a[1:])
    cand.extend([rows[0][:-1], rows[-1] + rows[-1][-1:], ('zz',) * depth, rows[0][:1]])
    have = {norm(r) for r in rows}
    for p in cand:
        if norm(p) in have:
            continue
        long_ = len(p) > depth
        o = obs(lambda: p in ih)
        if o[0] == 'ok':
            sink.check(not o[1], f'{PID}:contains-absent-tuple' + (':longer-than-depth' if long_ else ''), f'({p!r} in ih) is {o[1]!r}; rows {rows!r}', rp)
        o = obs(lambda: ih.loc_to_iloc(p))
        if o[0] == 'ok':
            sink.check(not is_intlike(o[1]), f'{PID}:absent-tuple-resolves' + (':longer-than-depth' if long_ else ''), f'loc_to_iloc({p!r}) returned {o[1]!r}; rows {rows!r}', rp)
    return True


# ---------------------------------------------------------------------------------------------
# selectors: reference semantics

class Undefined(Exception):
    pass


def expected_positions(rows, sel):
    """positions selected by per-depth selectors `sel` (list of ('label', x) | ('list', [..]) | ('slice', a, b) | ('all',) | ('mask', array))"""
    depth = len(rows[0])
    sel = list(sel) + [('all',)] * (depth - len(sel))

    def node(positions, d):
        # children of this node: ordered groups by label at depth d
        groups = []
        for p in positions:
            k = norm(rows[p][d])
            if groups and groups[-1][0] == k:
                groups[-1][2].append(p)
            else:
                groups.append((k, rows[p][d], [p]))
        s = sel[d]
        if s[0] == 'label':
            picked = [g for g in groups if g[0] == norm(s[1])]
        elif s[0] == 'list':
            picked = []
            for lab in s[1]:
                picked.extend(g for g in groups if g[0] == norm(lab))
        elif s[0] == 'slice':
            keys = [g[0] for g in groups]
            a = 0 if s[1] is None else (keys.index(norm(s[1])) if norm(s[1]) in keys else None)
            b = len(keys) - 1 if s[2] is None else (keys.index(norm(s[2])) if norm(s[2]) in keys else None)
            if a is None or b is None:
                raise Undefined()
            picked = groups[a:b + 1]
        elif s[0] == 'all':
            picked = groups
        elif s[0] == 'mask':
            if d != depth - 1:
                raise Undefined()
            picked = [g for g in groups if s[1][g[2][0]]]
        out = []
        for g in picked:
            if d == depth - 1:
                out.extend(g[2])
            else:
                out.extend(node(g[2], d + 1))
        return out
    return node(list(range(len(rows))), 0)


def to_key(s):
    if s[0] == 'label':
        return s[1]
    if s[0] == 'list':
        return list(s[1])
    if s[0] == 'slice':
        return slice(s[1], s[2])
    if s[0] == 'all':
        return slice(None)
    return np.array(s[1], dtype=bool)


def sel_repr(sel):
    out = []
    for s in sel:
        if s[0] == 'mask':
            out.append('mask' + ''.join('1' if x else '0' for x in s[1]))
        elif s[0] == 'all':
            out.append(':')
        elif s[0] == 'slice':
            out.append(f'{s[1]!r}:{s[2]!r}')
        else:
            out.append(repr(s[1]))
    return 'HLoc[' + ', '.join(out) + ']'


def sel_features(sel):
    """stable description of a selector combination for failure keys: the defect class is usually tied to one feature"""
    if any(s[0] == 'slice' and (s[1] is None or s[2] is None) and d > 0 for d, s in enumerate(sel)):
        return 'open-ended-slice-below-root'
    return '+'.join(sorted({s[0] for s in sel}))


def depth_options(rows, d, pattern, level):
    """selector options at depth d; level 0 = rich, 1 = medium, 2 = small"""
    labs = list(dict.fromkeys(r[d] for r in rows))
    first, last = labs[0], labs[-1]
    mid = labs[len(labs) // 2]
    ab = ABSENT[pattern[d]]
    opts = [('label', first), ('list', [last, first] if len(labs) > 1 else [first]), ('slice', first, last), ('all',)]
    if level <= 1:
        opts += [('label', last), ('list', [first, ab])]
    if level == 0:
        opts += [('label', mid), ('list', [mid]), ('slice', mid, None), ('slice', None, mid), ('list', [ab, last, mid] if len(labs) > 2 else [ab, last])]
    # dedupe
    seen, out = set(), []
    for o in opts:
        k = repr((o[0],) + tuple(norm(x) if not isinstance(x, list) else tuple(norm(y) for y in x) for x in o[1:]))
        if k not in seen:
            seen.add(k)
            out.append(o)
    return out


def mask_options(n, level):
    alt = [i % 2 == 0 for i in range(n)]
    one = [i == n - 1 for i in range(n)]
    opts = [('mask', alt), ('mask', one)]
    if level == 0:
        opts += [('mask', [True] * n), ('mask', [i % 3 != 1 for i in range(n)])]
    return opts


def selector_combos(rows, pattern, tier):
    depth = len(rows[0])
    n = len(rows)
    level = {2: 0, 3: 1, 4: 2}[depth] if tier == 'quick' else {2: 0, 3: 1, 4: (1 if n <= 6 else 2)}[depth]
    per = [depth_options(rows, d, pattern, level) for d in range(depth)]
    per[-1] = per[-1] + mask_options(n, level)
    for combo in itertools.product(*per):
        yield list(combo)
    # truncated keys (trailing depths implicit)
    for k in range(1, depth):
        for combo in itertools.product(*per[:k]):
            yield list(combo)


def positions_of(result, n):
    a = np.arange(n)
    if isinstance(result, (int, np.integer)) and not isinstance(result, (bool, np.bool_)):
        return [int(a[result])]
    if isinstance(result, slice):
        return [int(x) for x in a[result]]
    r = np.asarray(result)
    if r.dtype == bool:
        return [int(x) for x in a[r]]
    return [int(a[int(x)]) for x in r]


def check_selectors(rep, sink, ih, rows, pattern, rp, tier, containers=True, stride=1, offset=0):
    """every combination of per-level selectors against the reference; Series/Frame rows for the same keys"""
    import static_frame as sf
    n = len(rows)
    depth = len(rows[0])
    ser = frm = frc = None
    if containers:
        o = obs(lambda: sf.Series(np.arange(n) * 10 + 1, index=ih))
        ser = o[1] if o[0] == 'ok' else None
        o = obs(lambda: sf.Frame(np.arange(n * 2).reshape(n, 2), index=ih, columns=('x', 'y')))
        frm = o[1] if o[0] == 'ok' else None
        o = obs(lambda: sf.Frame(np.arange(n * 2).reshape(2, n), columns=ih))
        frc = o[1] if o[0] == 'ok' else None
        sink.check(ser is not None and frm is not None and frc is not None, f'{PID}:container:construction-raises', f'Series/Frame cannot be built on the hierarchy {rows!r}', rp)
    for ci, sel in enumerate(selector_combos(rows, pattern, tier)):
        if (ci + offset) % stride:
            continue
        try:
            E = expected_positions(rows, sel)
        except Undefined:
            continue
        if not E:
            continue  # selectors matching nothing are outside the claim
        srp = dict(rp, sel=sel_repr(sel), ci=ci)
        rep.count(distinct_key=(repr(sorted(rp.items(), key=str)), ci))
        key = sf.HLoc[tuple(to_key(s) for s in sel)]
        kinds = sel_features(sel)
        o = obs(lambda: ih.loc_to_iloc(key))
        if o[0] == 'exc':
            sink.fail(f'{PID}:hloc:raises-{type(o[1]).__name__}:{kinds}', f'{sel_repr(sel)} raises {o[1]!r}; expected positions {E} of rows {rows!r}', srp)
            continue
        try:
            got = positions_of(o[1], n)
        except Exception as e:
            sink.fail(f'{PID}:hloc:result-unusable', f'{sel_repr(sel)} returned {o[1]!r} ({e!r})', srp)
            continue
        if sorted(got) != sorted(E):
            sink.fail(f'{PID}:hloc:wrong-positions:{kinds}', f'{sel_repr(sel)} selects positions {got}, expected {E}; rows {rows!r}', srp)
            continue
        if got != E:
            sink.fail(f'{PID}:hloc:wrong-order:{kinds}', f'{sel_repr(sel)} yields positions in order {got}, expected {E} (index order, list selectors ordering their level); rows {rows!r}', srp)
            continue
        if not containers:
            continue
        exp_rows = [rows[p] for p in E]
        if ser is not None and (ci % 2 == 0 or stride > 1):
            o = obs(lambda: ser.loc[key])
            container_check(sink, o, [p * 10 + 1 for p in E], exp_rows, 'series', sel, srp, rows)
            if ci % 8 == 0:
                o = obs(lambda: ser[key])
                container_check(sink, o, [p * 10 + 1 for p in E], exp_rows, 'series-getitem', sel, srp, rows)
        if frm is not None and ci % 5 == 0:
            o = obs(lambda: frm.loc[key])
            container_check(sink, o, [[2 * p, 2 * p + 1] for p in E], exp_rows, 'frame-rows', sel, srp, rows)
            o = obs(lambda: frm.loc[key, 'y'])
            container_check(sink, o, [2 * p + 1 for p in E], exp_rows, 'frame-rows-col', sel, srp, rows)
        if frc is not None and ci % 7 == 0:
            o = obs(lambda: frc.loc[:, key])
            container_check(sink, o, [[p, n + p] for p in E], exp_rows, 'frame-columns', sel, srp, rows, axis=1)
            if ci % 14 == 0:
                o = obs(lambda: frc[key])
                container_check(sink, o, [[p, n + p] for p in E], exp_rows, 'frame-getitem-columns', sel, srp, rows, axis=1)


def container_check(sink, o, exp_vals, exp_rows, what, sel, srp, rows, axis=0):
    import static_frame as sf
    if o[0] == 'exc':
        sink.fail(f'{PID}:container:{what}:raises-{type(o[1]).__name__}', f'{what} under loc[{sel_repr(sel)}] raises {o[1]!r}; expected rows {exp_rows!r} of {rows!r}', srp)
        return
    r = o[1]
    try:
        if isinstance(r, sf.Frame):
            labels = list(r.index if axis == 0 else r.columns)
            vals = r.values.tolist() if axis == 0 else r.values.T.tolist()
        elif isinstance(r, sf.Series):
            if what in ('frame-rows', 'frame-columns', 'frame-getitem-columns') and len(exp_rows) == 1:
                # a single row/column comes back as a Series over the other axis
                labels, vals = [r.name], [r.values.tolist()]
            else:
                labels, vals = list(r.index), r.values.tolist()
        else:
            labels, vals = [exp_rows[0]] if len(exp_rows) == 1 else None, [r.item() if isinstance(r, np.generic) else r]
    except Exception as e:
        sink.fail(f'{PID}:container:{what}:result-unusable', f'{what} under loc[{sel_repr(sel)}] returned {r!r} ({e!r})', srp)
        return
    sink.check(vals == exp_vals, f'{PID}:container:{what}:wrong-rows', f'{what} under loc[{sel_repr(sel)}] holds values {vals!r}, expected {exp_vals!r} (rows {exp_rows!r}); hierarchy {rows!r}', srp)
    sink.check(labels is not None and eq_seq(labels, exp_rows), f'{PID}:container:{what}:wrong-labels',
               f'{what} under loc[{sel_repr(sel)}] is labelled {labels!r}, expected {exp_rows!r}; hierarchy {rows!r}', srp)


def check_whole_key(sink, ih, rows, rp):
    """Boolean array / list of tuples / tuple slice / IndexHierarchy as the whole key"""
    import static_frame as sf
    n = len(rows)
    for name, mask in (('alt', [i % 2 == 0 for i in range(n)]), ('last', [i == n - 1 for i in range(n)]), ('skip1', [i % 3 != 1 for i in range(n)])):
        E = [i for i in range(n) if mask[i]]
        if not E:
            continue
        o = obs(lambda: ih.loc_to_iloc(np.array(mask)))
        got = obs(lambda: positions_of(o[1], n)) if o[0] == 'ok' else o
        sink.check(got[0] == 'ok' and got[1] == E, f'{PID}:whole-key:bool-mask', f'loc_to_iloc(bool {mask}) gives {got[1]!r}, expected {E}; rows {rows!r}', dict(rp, whole='mask-' + name))
        o = obs(lambda: list(ih.loc[np.array(mask)]))
        sink.check(o[0] == 'ok' and eq_seq(o[1], [rows[p] for p in E]), f'{PID}:whole-key:bool-mask-loc', f'ih.loc[bool {mask}] lists {o[1]!r}, expected {[rows[p] for p in E]!r}', dict(rp, whole='mask-loc-' + name))
    if n > 1:
        keys = [rows[-1], rows[0]]
        o = obs(lambda: ih.loc_to_iloc(keys))
        got = obs(lambda: positions_of(o[1], n)) if o[0] == 'ok' else o
        sink.check(got[0] == 'ok' and got[1] == [n - 1, 0], f'{PID}:whole-key:list-of-tuples', f'loc_to_iloc({keys!r}) gives {got[1]!r}, expected {[n - 1, 0]}', dict(rp, whole='list'))
        a, b = n // 3, n - 1 - n // 3
        if a <= b:
            o = obs(lambda: ih.loc_to_iloc(slice(rows[a], rows[b])))
            got = obs(lambda: positions_of(o[1], n)) if o[0] == 'ok' else o
            sink.check(got[0] == 'ok' and got[1] == list(range(a, b + 1)), f'{PID}:whole-key:tuple-slice', f'loc_to_iloc(slice({rows[a]!r}, {rows[b]!r})) gives {got[1]!r}, expected {list(range(a, b + 1))}', dict(rp, whole='slice'))
        o = obs(lambda: ih.loc_to_iloc(ih.iloc[::-1] if is_tree_order(rows[::-1]) else ih.iloc[1:]))
        E = list(range(n))[::-1] if is_tree_order(rows[::-1]) else list(range(1, n))
        got = obs(lambda: positions_of(o[1], n)) if o[0] == 'ok' else o
        sink.check(got[0] == 'ok' and got[1] == E, f'{PID}:whole-key:index-hierarchy', f'loc_to_iloc(IndexHierarchy) gives {got[1]!r}, expected {E}', dict(rp, whole='ih'))
        o = obs(lambda: ih.loc_to_iloc(sf.ILoc[-1]))
        sink.check(o[0] == 'ok' and positions_of(o[1], n) == [n - 1], f'{PID}:whole-key:iloc-wrapper', f'loc_to_iloc(ILoc[-1]) gives {o[1]!r}', dict(rp, whole='iloc'))


# ---------------------------------------------------------------------------------------------
# grow-only variants

def outer_blocks(rows):
    blocks = []
    for r in rows:
        if blocks and eq(blocks[-1][0][0], r[0]):
            blocks[-1].append(r)
        else:
            blocks.append([r])
    return blocks


def go_variants(rows):
    n = len(rows)
    out = []
    for k in range(1, min(4, n) + 1):
        out.append((f'append-last-{k}', rows[:n - k], [('append', r) for r in rows[n - k:]]))
    blocks = outer_blocks(rows)
    if len(blocks) >= 2:
        out.append(('extend-blocks', blocks[0], [('extend', b) for b in blocks[1:]]))
    if len(blocks) >= 3:
        out.append(('extend-rest-at-once', blocks[0], [('extend', [r for b in blocks[1:] for r in b])]))
        out.append(('extend-two-then-one', blocks[0] + blocks[1], [('extend', blocks[2])]))
    if len(blocks) >= 2:
        ops = [('extend', blocks[1])]
        if len(blocks) == 3:
            ops += [('append', r) for r in blocks[2]]
        if len(ops) <= 4:
            out.append(('extend-then-append', blocks[0], ops))
        ops = [('append', r) for r in blocks[1]]
        if len(blocks) == 3:
            ops += [('extend', blocks[2])]
        if len(ops) <= 4:
            out.append(('append-then-extend', blocks[0], ops))
    return out


READS = ('cold', 'warm', 'between')


def build_go(rows, pattern, variant, read, sink, rp):
    """replays one grow-only history; returns the index or None (failure already reported)"""
    import static_frame as sf
    depth = len(rows[0])
    names = ctor_names(pattern)
    icgo = ctor_objs(names, True)
    ic = ctor_objs(names, False)
    name, base, ops = variant
    kw = dict(index_constructors=icgo) if icgo else {}
    g = sf.IndexHierarchyGO.from_labels(list(base), depth_reference=depth, **kw)

    def touch():
        return obs(lambda: (g.values, [g.values_at_depth(d) for d in range(depth)], len(g), g.positions))

    if read in ('warm', 'between'):
        o = touch()
        if o[0] == 'exc':
            sink.fail(f'{PID}:go:cache-read-raises:{type(o[1]).__name__}', f'reading caches of the base {base!r} raises {o[1]!r}', rp)
            return None
    done = list(base)
    for op, arg in ops:
        if op == 'append':
            o = obs(lambda: g.append(arg))
            done = done + [arg]
        else:
            operand = sf.IndexHierarchy.from_labels(list(arg), **(dict(index_constructors=ic) if ic else {}))
            o = obs(lambda: g.extend(operand))
            done = done + list(arg)
        if o[0] == 'exc':
            sink.fail(f'{PID}:go:{op}-raises:{type(o[1]).__name__}' + (':from-empty' if not base else ''), f'{op}({arg!r}) raises {o[1]!r} on rows {done[:-1]!r} (history {name}, {read})', rp)
            return None
        if read == 'between':
            o = touch()
            if o[0] == 'exc':
                sink.fail(f'{PID}:go:cache-read-raises:{type(o[1]).__name__}' + (':from-empty' if not base else ''), f'reading caches after {op}({arg!r}) raises {o[1]!r} (history {name})', rp)
                return None
    return g


# ---------------------------------------------------------------------------------------------
# driver

def case_rows(case):
    shape = case['shape']

    def tup(x):
        return tuple(tup(y) for y in x) if isinstance(x, (list, tuple)) else x
    return make_rows(tup(shape), case['pattern'], case['shift'])


def eval_tree(rep, case, tier, only=None):
    """only: None, or dict(route=.. | go=.., read=..) to restrict to one construction (replay)"""
    rows = case_rows(case)
    pattern = case['pattern']
    depth = len(rows[0])
    base_rp = dict(case)
    salt = sum(len(repr(r)) for r in rows) + len(rows) + case['shift']
    applicable = [r for r in STATIC_ROUTES if route_applies(r, rows, pattern)]
    full_sel = {'from_labels', applicable[1 + salt % (len(applicable) - 1)]}
    for route in applicable:
        if only is not None and only.get('route') != route:
            continue
        rp = dict(base_rp, route=route)
        rep.count(distinct_key=('route', repr(sorted(rp.items(), key=str))), sample=dict(rp, rows=len(rows)))
        o = obs(lambda: build(route, rows, pattern))
        if o[0] == 'exc':
            rep.fail(f'{PID}:route:{route}:raises-{type(o[1]).__name__}', f'construction route {route} raises {o[1]!r} for rows {rows!r}', rp)
            continue
        ih = o[1]
        kind, model = route_model(route, rows)
        if kind == 'set':
            got = obs(lambda: list(ih))
            if got[0] == 'exc' or {norm(x) for x in got[1]} != {norm(x) for x in rows} or len(got[1]) != len(rows):
                rep.fail(f'{PID}:route:{route}:label-set', f'route {route} lists {got[1]!r}, expected a reordering of {rows!r}', rp)
                continue
            model = [tuple(native(x) if not isinstance(x, np.datetime64) else x.item() for x in r) for r in got[1]]
        if not views(rep, ih, model, rp, 'views'):
            continue
        check_whole_key(rep, ih, model, rp)
        ri = applicable.index(route)
        stride = 1 if route == 'from_labels' else ((9 if route in full_sel else 59) if tier == 'quick' else (2 if route in full_sel else 7))
        check_selectors(rep, rep, ih, model, pattern, rp, tier, containers=True, stride=stride, offset=ri + salt)
    if only is None or only.get('route') == 'non-tree-order':
        eval_non_tree(rep, rows, pattern, base_rp)
    variants = go_variants(rows)
    full_go = salt % max(1, len(variants) * len(READS))
    vi = 0
    for variant in variants:
        for read in READS:
            mine = vi == full_go
            vi += 1
            if only is not None and (only.get('go') != variant[0] or only.get('read') != read):
                continue
            rp = dict(base_rp, go=variant[0], read=read)
            rep.count(distinct_key=('go', repr(sorted(rp.items(), key=str))), sample=dict(rp, rows=len(rows)))
            g = build_go(rows, pattern, variant, read, rep, rp)
            if g is None:
                continue
            # each per-depth array read as the FIRST view after the history (on its own replay of the history: any other view would refresh the caches)
            for d_first in range(depth):
                g1 = build_go(rows, pattern, variant, read, Sink(), rp)
                if g1 is None:
                    break
                o1 = obs(lambda: list(g1.values_at_depth(d_first)))
                exp1 = [r[d_first] for r in rows]
                if o1[0] == 'exc':
                    rep.fail(f'{PID}:go-first-read:values_at_depth-raises:{type(o1[1]).__name__}', f'values_at_depth({d_first}) read first after history {variant[0]} ({read}) raises {o1[1]!r}; rows {rows!r}', rp)
                elif not eq_seq(o1[1], exp1) and not eq_seq(ns_ints_to_dt(o1[1], exp1), exp1):
                    rep.fail(f'{PID}:go-first-read:values_at_depth', f'values_at_depth({d_first}) read first after history {variant[0]} ({read}) presents {o1[1]!r}, expected {exp1!r}', rp)
            check_derived(rep, g, rows, rp)   # before any view of g is read: the caches of g are as the history left them
            if not views(rep, g, rows, rp, 'go-views'):
                continue
            check_whole_key(rep, g, rows, rp)
            check_selectors(rep, rep, g, rows, pattern, rp, tier, containers=True, stride=((5 if mine else 59) if tier == 'quick' else (1 if mine else 7)), offset=vi + salt)
    eval_invalid_appends(rep, rows, pattern, base_rp, only)


def check_derived(rep, g, rows, rp):
    """indices built from a grown grow-only index ("however it was built") describe the same tuples"""
    import static_frame as sf
    for how, thunk in (('IndexHierarchy(go)', lambda: sf.IndexHierarchy(g)), ('IndexHierarchyGO(go)', lambda: sf.IndexHierarchyGO(g)),
                       ('go.copy()', lambda: g.copy()), ('go.rename', lambda: g.rename('n'))):
        o = obs(thunk)
        if o[0] == 'exc':
            rep.fail(f'{PID}:go-derived:{how}:raises-{type(o[1]).__name__}', f'{how} raises {o[1]!r} for a grown index listing {rows!r}', dict(rp, derived=how))
            continue
        views(rep, o[1], rows, dict(rp, derived=how), 'go-derived-views')


def eval_non_tree(rep, rows, pattern, base_rp):
    """a label order that is not a tree: the constructors either refuse it or present exactly the order given"""
    import static_frame as sf
    n = len(rows)
    perm = None
    for i in range(n - 2):
        cand = list(range(n))
        cand[i + 1], cand[i + 2] = cand[i + 2], cand[i + 1]
        if not is_tree_order([rows[p] for p in cand]):
            perm = cand
            break
    if perm is None:
        return
    bad = [rows[p] for p in perm]
    names = ctor_names(pattern)
    for go in (False, True):
        cls = sf.IndexHierarchyGO if go else sf.IndexHierarchy
        ic = ctor_objs(names, go)
        kw = dict(index_constructors=ic) if ic else {}
        for how, thunk in (('from_labels', lambda: cls.from_labels(list(bad), **kw)), ('iloc', lambda: cls.from_labels(list(rows), **kw).iloc[perm]),
                           ('loc-list', lambda: cls.from_labels(list(rows), **kw).loc[list(bad)])):
            rp = dict(base_rp, route='non-tree-order', how=how, go=go)
            rep.count(distinct_key=('nontree', repr(sorted(rp.items(), key=str))))
            o = obs(thunk)
            if o[0] == 'exc':
                continue  # refused (which exception: C02)
            s = Sink()
            views(s, o[1], bad, rp, 'views')
            shown = obs(lambda: list(o[1]))
            rep.check(not s.failures, f'{PID}:route:non-tree-order-accepted-and-rearranged', f'{how} given the non-tree order {bad!r} returned an index listing {shown[1]!r}', rp)


def eval_invalid_appends(rep, rows, pattern, base_rp, only):
    """an append that cannot extend the tuple sequence (label under a parent that is not the last one; a held label):
    either it raises and the index still describes `rows`, or it returns and the index describes rows + [label]"""
    import static_frame as sf
    if eq(rows[0][:-1], rows[-1][:-1]):
        return
    depth = len(rows[0])
    bads = (('append-under-non-last-parent', rows[0][:-1] + (ABSENT[pattern[-1]],)), ('append-held-label-of-non-last-parent', rows[0]))
    for name, bad in bads:
        for read in READS:
            if only is not None and (only.get('go') != name or only.get('read') != read):
                continue
            rp = dict(base_rp, go=name, read=read)
            rep.count(distinct_key=('go', repr(sorted(rp.items(), key=str))), sample=dict(rp, rows=len(rows)))
            g = build_go(rows, pattern, ('full', rows, []), 'warm' if read != 'cold' else 'cold', rep, rp)
            if g is None:
                continue
            o = obs(lambda: g.append(bad))
            if read == 'between':
                obs(lambda: g.values)
            s = Sink()
            if o[0] == 'exc':
                views(s, g, rows, rp, 'go-views-after-rejected-append')
                s.flush(rep)
            else:
                ok = views(s, g, rows + [bad], rp, 'go-views') and not s.failures
                shown = obs(lambda: list(g))
                rep.check(ok, f'{PID}:go:append-under-non-last-parent-misfiled',
                          f'append({bad!r}) on rows {rows!r} returned normally; the index now lists {shown[1]!r} ({s.failures[0][1][:160] if s.failures else ""})', rp)


class Rep(Report):
    def check(self, cond, key, what, replay=None):
        if cond:
            return True
        return Report.check(self, cond, key, what, dict(replay or {}, key=key))


RULE = ('ragged label trees of depth 2-4 generated from nested fan-out shapes (fan-out <= 3), inner labels repeated under different parents (and rotated per parent), '
        'per-depth label types str/int/datetime (IndexDate levels) in unsorted label order; every tree x every applicable construction route (20 static routes, '
        'grow-only append/extend histories of <= 4 operations x {no cache read, read before, read between}); all views compared with the tuple list; '
        'every combination of per-depth selectors (label / list in reverse order / list with an absent member / label slice / open slices / all / innermost Boolean masks; truncated keys) '
        'compared with the reference selection, and Series / Frame rows / Frame columns under the same key. '
        'Non-trivial: every construction (>= 1 row) and every selector combination whose reference selection is defined and non-empty.')


def run(repo, task):
    tier = task.get('tier', 'quick')
    rep = Rep('C05-hierarchy', task, rule=RULE + ' Added: after every grow-only history, before any view of the grown index is read, the indices derived from it (IndexHierarchy(go), IndexHierarchyGO(go), copy, rename) must present the same tuples.',
              bound=('all 39 depth-2 shapes x 2 label patterns, 45 depth-3 shapes, 6 depth-4 shapes; <= 13 x 13 selector options at depth 2, 6-8 per depth at depth 3, 4-6 at depth 4'
                     if tier == 'quick' else 'all 39 depth-2 shapes x 12 label patterns, 417 depth-3 shapes, 31 depth-4 shapes; <= 13 x 17 selector options at depth 2, 6-8 per depth at depth 3, 4-8 at depth 4'))
    rep.assumptions.add('a label slice at a level is only demanded when both end points exist in every node the outer selectors reach (otherwise LocInvalid is raised)')
    rep.assumptions.add('the nested order (outer selectors first) is taken as the meaning of "a list selector orders the matches of its level by the list"')
    import json
    import zlib
    cases = sorted(tree_cases(tier), key=lambda c: (zlib.crc32(json.dumps(c, sort_keys=True).encode()), json.dumps(c, sort_keys=True)))
    for case in rep.shard(cases):
        try:
            eval_tree(rep, case, tier)
        except Exception:
            rep.error(repr(case))
    return rep.done()


def run_go_derived(repo, task):
    """the grow-only part only (used for C02 as well): after every history, indices derived from the grown index and the per-depth arrays read first
    describe the same tuples"""
    tier = task.get('tier', 'quick')
    rep = Rep('C05-go-derived', task, rule='every label tree x every grow-only history x {cold, warm, between}: derived indices (IndexHierarchy(go), IndexHierarchyGO(go), copy, rename) '
                                           'and values_at_depth read first present the tuple list', bound='as C05-hierarchy')
    import json
    import zlib
    cases = sorted(tree_cases(tier), key=lambda c: (zlib.crc32(json.dumps(c, sort_keys=True).encode()), json.dumps(c, sort_keys=True)))
    for case in rep.shard(cases):
        try:
            rows = case_rows(case)
            pattern = case['pattern']
            depth = len(rows[0])
            for variant in go_variants(rows):
                for read in READS:
                    rp = dict(case, go=variant[0], read=read)
                    rep.count(distinct_key=('go-derived', repr(sorted(rp.items(), key=str))))
                    g = build_go(rows, pattern, variant, read, Sink(), rp)
                    if g is None:
                        continue
                    s_ = Sink()
                    check_derived(s_, g, rows, rp)
                    for k_, w_, r_ in s_.failures:
                        if ':go-derived' in k_:
                            rep.fail(k_, w_, r_)
        except Exception:
            rep.error(repr(case))
    return rep.done()


def replay(repo, rp):
    case = {k: rp[k] for k in ('area', 'depth', 'shape', 'pattern', 'shift')}
    only = {k: rp[k] for k in ('route', 'go', 'read') if k in rp}
    rep = Rep('C05-replay', dict(tier='thorough'), rule='', bound='')
    try:
        eval_tree(rep, case, 'thorough', only=only)
    except Exception as e:
        return dict(outcome='error', detail=repr(e))
    key = rp.get('key')
    hit = rep.failures.get(key) if key else (next(iter(rep.failures.values())) if rep.failures else None)
    if hit:
        return dict(outcome='fail', key=hit['key'], what=hit['what'])
    return dict(outcome='pass', evaluations=rep.evaluations, other_failures=sorted(rep.failures))
