"""C17 bounded stand-in: Bus and multi-table stores -- faithful, lazy, bounded, stale-file safe.

Contracts evaluated at run time on the real package (reference model = the property statement):

  store       write(frames, per-label config) ; reopen  ==>  labels in written order, each Frame equal (labels, cells,
              name; exact dtypes for pickle) to the Frame written -- through the Store classes, through Bus.to_*/from_*
              and through a lazily loaded Bus re-exported with a max_persist limit.
  history     for a Bus opened on a store with max_persist = mp and a StoreConfigMap holding a different config per label:
              an abstract LRU model (labels, loaded set, recency list) is advanced op by op; after every op
                * the value returned equals what an eager read  Store(fp).read(label, config=config_map[label])  returns,
                * nothing is loaded that was never accessed (lazy), |loaded| <= mp, loaded set == model (LRU eviction),
                * status / shapes / _loaded / stored elements agree with each other,
                * derived Buses (selection, drop, reindex, sort_index) have the expected labels, obey mp and serve equal Frames.
  mutation    after a history prefix the backing file is touched (mtime only) / rewritten / removed: every following access
              that must read from the store raises StoreFileMutation.
"""
from __future__ import annotations
import itertools
import os
import tempfile
import numpy as np
from .common import Report, snapshot, same_cell, _cell

PID = 'C17'
LABELS = ['fb', 'fd', 'fa', 'fc']          # deliberately not in sorted order
EXTRA = ['fe', 'f.f']                      # appended (never rotated) for the 5- and 6-frame worlds


# ---------------------------------------------------------------------------------------------
# worlds

def make_frames(n, world=0):
    import static_frame as sf
    fs = {
        'fb': lambda: sf.Frame.from_dict(dict(a=[1, -2], b=[1.5, np.nan]), index=('x', 'y'), name='fb'),
        'fd': lambda: sf.Frame.from_dict(dict(a=['p', 'q', 'r'], b=[True, False, True]), index=(10, 20, 30), name='fd'),
        'fa': lambda: sf.Frame(np.arange(6).reshape(2, 3), index=sf.IndexHierarchy.from_labels([('a', 1), ('a', 2)]), columns=('u', 'v', 'w'), name='fa'),
        'fc': lambda: sf.Frame.from_dict({'k': [0.5], 'm': ['z w']}, index=('only',), name='fc'),
    }
    # fe: auto-integer index, written WITHOUT its index (per-label exporter options differ from the default config)
    fs['fe'] = lambda: sf.Frame.from_dict(dict(g=[7, 8, 9], h=['s', 't', 'u']), name='fe')
    fs['f.f'] = lambda: sf.Frame.from_dict(dict(a=[2.5, 3.5]), index=('m', 'n'), name='f.f')     # a label holding a dot (zip member names carry an extension)
    order = LABELS[world:] + LABELS[:world] + EXTRA
    return [fs[l]() for l in order[:n]]


DEPTH = {'fb': 1, 'fd': 1, 'fa': 2, 'fc': 1, 'fe': 0, 'f.f': 1}
EXPORT = dict(fe=dict(include_index=False))


def make_config(labels, workers=None):
    import static_frame as sf
    kw = {} if workers is None else dict(read_max_workers=workers, write_max_workers=workers)
    # the default config (index_depth=0) differs from every per-label config: a read with the wrong config is visible
    return sf.StoreConfigMap({l: sf.StoreConfig(index_depth=DEPTH[l], **EXPORT.get(l, {}), **kw) for l in labels}, default=sf.StoreConfig(**kw))


def formats():
    """format name -> (extension, exporter name, constructor name, Store class name); optional formats probed"""
    out = dict(zip_pickle=('.zip', 'to_zip_pickle', 'from_zip_pickle', 'StoreZipPickle'),
               zip_csv=('.zip', 'to_zip_csv', 'from_zip_csv', 'StoreZipCSV'),
               zip_tsv=('.zip', 'to_zip_tsv', 'from_zip_tsv', 'StoreZipTSV'),
               sqlite=('.sqlite', 'to_sqlite', 'from_sqlite', 'StoreSQLite'))
    skipped = []
    for name, mods, spec in (('xlsx', ('openpyxl', 'xlsxwriter'), ('.xlsx', 'to_xlsx', 'from_xlsx', 'StoreXLSX')),
                             ('hdf5', ('tables',), ('.h5', 'to_hdf5', 'from_hdf5', 'StoreHDF5')),
                             ('zip_parquet', ('pyarrow',), ('.zip', 'to_zip_parquet', 'from_zip_parquet', 'StoreZipParquet'))):
        try:
            for m in mods:
                __import__(m)
            out[name] = spec
        except Exception:
            skipped.append(name)
    return out, skipped


def store_class(fmt_spec):
    import importlib
    for mod in ('store_zip', 'store_sqlite', 'store_xlsx', 'store_hdf5'):
        m = importlib.import_module('static_frame.core.' + mod)
        if hasattr(m, fmt_spec[3]):
            return getattr(m, fmt_spec[3])
    raise RuntimeError(f'no store class {fmt_spec[3]}')


def from_package(e):
    """was the exception raised inside static_frame (an observation) rather than in this harness?"""
    import traceback
    tb = traceback.extract_tb(e.__traceback__)
    return bool(tb) and 'static_frame' in tb[-1].filename or any('static_frame' in fr.filename for fr in tb[1:])


# ---------------------------------------------------------------------------------------------
# comparison

def loose_sig(f, missing_equiv=False):
    """labels + cells + name (dtype-free); NaN and None are one 'missing' value when missing_equiv (SQLite NULL)"""
    def cell(v):
        c = _cell(v)
        if missing_equiv and (c == 'NaN' or v is None):
            return 'missing'
        if isinstance(c, tuple) and c[0] in ('int', 'float') and not isinstance(v, (bool, np.bool_)):
            return ('num', float(c[1]))
        return c
    ix = [tuple(cell(x) for x in r) if isinstance(r, (tuple, list, np.ndarray)) else cell(r) for r in f.index.values.tolist()]
    cx = [tuple(cell(x) for x in r) if isinstance(r, (tuple, list, np.ndarray)) else cell(r) for r in f.columns.values.tolist()]
    cells = tuple(tuple(cell(v) for v in f.iloc[:, j].values) for j in range(f.shape[1]))
    return (f.name, f.shape, f.index.depth, f.columns.depth, tuple(ix), tuple(cx), cells)


def fast_sig(f):
    """cheap exact signature of a Frame: class, name, labels, index/columns classes and per-block dtype + cells"""
    name = f.name.item() if isinstance(f.name, np.generic) else f.name
    return repr((type(f).__name__, name, f.shape, type(f._index).__name__, f._index.name, f._index.values.tolist(),
                 type(f._columns).__name__, f._columns.name, f._columns.values.tolist(),
                 [(b.dtype.str, b.tolist()) for b in f._blocks._blocks]))


class World:
    """a written store file plus the eager reference reads"""

    def __init__(self, tmp, fmt, spec, n, world, workers=None):
        import static_frame as sf
        self.fmt, self.spec, self.n = fmt, spec, n
        self.frames = make_frames(n, world)
        self.labels = [f.name for f in self.frames]
        self.config = make_config(self.labels, workers)
        self.fp = os.path.join(tmp, f'w_{fmt}_{n}_{world}_{workers}{spec[0]}')
        self.src = sf.Bus.from_frames(self.frames)
        self.write()
        st = store_class(spec)(self.fp)
        self.eager = {l: fast_sig(st.read(l, config=self.config[l])) for l in self.labels}
        self.eager_default = {l: fast_sig(st.read(l, config=self.config.default)) for l in self.labels}
        self.shapes = {l: st.read(l, config=self.config[l]).shape for l in self.labels}

    def write(self):
        getattr(self.src, self.spec[1])(self.fp, config=None if self.fmt == 'zip_pickle' else self.config)

    def open(self, mp):
        import static_frame as sf
        return getattr(sf.Bus, self.spec[2])(self.fp, config=self.config, max_persist=mp)


# ---------------------------------------------------------------------------------------------
# LRU model

class Model:
    def __init__(self, labels, mp, loaded=(), ambiguous=False):
        self.labels = list(labels)
        self.mp = mp
        self.loaded = set(loaded)
        self.rec = [l for l in labels if l in self.loaded]      # LRU ... MRU
        self.amb = set(self.rec) if ambiguous else set()        # relative recency unknown (freshly derived Bus)
        self.touched = set(loaded)
        self.pending_amb = False

    def touch(self, l):
        self.touched.add(l)
        if self.mp is None:
            self.loaded.add(l)
            return
        if l in self.rec:
            self.rec.remove(l)
        self.rec.append(l)
        self.amb.discard(l)
        self.loaded.add(l)
        while len(self.loaded) > self.mp:
            victims = [x for x in self.rec if x in self.loaded]
            v = victims[0]
            if v in self.amb and len(self.amb & self.loaded) > 1:
                self.pending_amb = True                         # any member of the ambiguous group may go
                return
            self.loaded.discard(v)
            self.rec.remove(v)
            self.amb.discard(v)

    def needs_read(self, sel):
        """does accessing sel require a store read?  (a label evicted and re-selected inside one selection is re-installed
        from the captured element, so only labels that are unloaded when the access starts need the store)"""
        return any(l not in self.loaded for l in sel)


# ---------------------------------------------------------------------------------------------
# operations

def op_alphabet(n, size='full'):
    """operations are position based; positions are taken modulo the current number of labels.
    sizes: loc (single labels + one list) < small < medium < full"""
    ops = [('loc', i) for i in range(n)]
    if n >= 2:
        ops += [('list', [n - 1, 0])]
    if size == 'loc':
        return ops
    if n >= 2:
        ops += [('list', [0, 1])]
    ops += [('items',), ('status',)]
    if size in ('small', False):
        return ops
    ops += [('values',), ('bool', [i % 2 == 0 for i in range(n)]), ('islice', None, None, -1), ('get', n // 2), ('drop', 0), ('sort', False),
            ('sel', [n - 1, 0][:n])]
    if size == 'medium':
        return _dedup(ops)
    ops += [('list', list(range(n))), ('slice', 0, n - 1), ('slice', n - 1 if n < 3 else 1, None),
            ('iloc', n - 1), ('iloc', -1), ('islice', 1, None, None), ('ilist', [n - 1, 0][:n]),
            ('iter',), ('head', 1), ('tail', 2), ('drop_iloc', -1), ('reindex',), ('sort', True), ('isel', 1)]
    return _dedup(ops)


def _dedup(ops):
    seen, out = set(), []
    for o in ops:
        if repr(o) not in seen:
            seen.add(repr(o))
            out.append(o)
    return out


def probe_alphabet(n):
    return _dedup([('loc', i) for i in range(n)] + [('list', [n - 1, 0][:n]), ('slice', 0, n - 1), ('bool', [i % 2 == 0 for i in range(n)]),
                   ('iloc', -1), ('islice', 1, None, None), ('items',), ('values',), ('sel', [n - 1, 0][:n]), ('head', 1)])


def history_plan(tier, primary, n):
    """[(alphabet size, length, max_persist filter)]"""
    anymp = lambda mp: True
    bounded = lambda mp: mp is not None and mp < n
    notfull = lambda mp: mp is None or mp < n
    mid = lambda mp: mp == 2
    low = lambda mp: mp is None or mp <= 2
    bounded_or_none = lambda mp: mp is None or (mp is not None and mp < n)
    if tier == 'quick':
        if primary:
            return {1: [('full', 1, anymp), ('full', 2, anymp), ('small', 3, anymp), ('small', 4, anymp)],
                    2: [('full', 1, anymp), ('full', 2, anymp), ('medium', 3, notfull), ('small', 4, bounded), ('loc', 5, anymp)],
                    3: [('full', 1, anymp), ('full', 2, anymp), ('medium', 3, bounded), ('small', 3, anymp), ('small', 4, mid), ('loc', 5, notfull)],
                    4: [('full', 1, anymp), ('full', 2, low), ('small', 3, anymp), ('loc', 4, anymp), ('loc', 5, mid)]}[n]
        return [('full', 1, anymp), ('medium', 2, anymp), ('loc', 3, anymp)] if n <= 3 else [('full', 1, anymp)]
    if primary:
        return [('full', 1, anymp), ('full', 2, anymp), ('full', 3, anymp), ('medium', 4, anymp), ('small', 5, anymp), ('loc', 6, bounded)]
    return [('full', 1, anymp), ('full', 2, anymp), ('medium', 3, anymp), ('small', 4, anymp)]


def selected_positions(op, k):
    """positions (in order) of the current k labels an op selects; None when it touches nothing"""
    kind = op[0]
    pos = list(range(k))
    if kind in ('loc', 'iloc', 'get'):
        return [op[1] % k]
    if kind in ('list', 'ilist', 'sel'):
        out = []
        for i in op[1]:
            if i % k not in out:
                out.append(i % k)
        return out
    if kind == 'slice':
        a = op[1] % k
        b = (k - 1) if op[2] is None else op[2] % k
        return pos[a:b + 1]
    if kind == 'bool':
        return [i for i in pos if op[1][i % len(op[1])]]
    if kind in ('islice', 'isel'):
        return pos[slice(op[1], None, None)] if kind == 'isel' else pos[slice(op[1], op[2], op[3])]
    if kind == 'head':
        return pos[:op[1]]
    if kind == 'tail':
        return pos[-op[1]:]
    if kind in ('items', 'values'):
        return pos
    return None


class Violation(Exception):
    pass


def actual_loaded(bus, rep_problems, full=False):
    """loaded labels as observed on the stored elements, cross-checked with the _loaded flags and (full: after a
    `status` op and at the end of every history) with the public status / shapes properties"""
    from static_frame.core.bus import FrameDeferred
    import static_frame as sf
    labels = list(bus._series._index)
    values = bus._series.values
    by_flag = [bool(x) for x in bus._loaded]
    by_elem = [isinstance(v, sf.Frame) for v in values]
    views = [by_flag, by_elem]
    if full:
        views.append([bool(x) for x in bus.status['loaded'].values])
        views.append([v is not None for v in bus.shapes.values])
    if any(v != by_elem for v in views) or bool(bus._loaded_all) != all(by_elem):
        rep_problems.append((f'{PID}:bus:status-inconsistent', f'_loaded {by_flag}, stored Frames {by_elem}, status/shapes {views[2:]}, _loaded_all {bus._loaded_all} disagree'))
    if any(not (isinstance(v, sf.Frame) or v is FrameDeferred) for v in values):
        rep_problems.append((f'{PID}:bus:foreign-element', 'an element of the Bus is neither a Frame nor the deferred placeholder'))
    if bus._max_persist is not None and set(bus._last_accessed) != {l for l, x in zip(labels, by_elem) if x}:
        # bookkeeping invariant: recency keys == loaded labels
        rep_problems.append((f'{PID}:bus:recency-keys', f'_last_accessed keys {list(bus._last_accessed)} != loaded labels {[l for l, x in zip(labels, by_elem) if x]}'))
    return {l for l, x in zip(labels, by_elem) if x}


def check_frame(f, label, world, mp, opname, problems):
    import static_frame as sf
    if not isinstance(f, sf.Frame):
        problems.append((f'{PID}:bus:{opname}:placeholder-returned', f'{opname} returned {f!r} for label {label!r} instead of the Frame'))
        return
    s = fast_sig(f)
    if s != world.eager[label]:
        if s == world.eager_default[label] and world.eager_default[label] != world.eager[label]:
            problems.append((f'{PID}:bus:per-label-config-ignored' + (':max_persist-1' if mp == 1 else ''),
                             f'{opname}: Frame for {label!r} was read with the default config, not config[{label!r}] (max_persist={mp})'))
        else:
            problems.append((f'{PID}:bus:wrong-frame', f'{opname}: Frame returned for {label!r} differs from the eager read: {str(s)[:200]} vs {str(world.eager[label])[:200]}'))


def check_derived(d, want_labels, world, mp, opname, problems, deep=True):
    """a derived Bus must carry the expected labels, respect mp at creation and serve equal Frames for every label"""
    import static_frame as sf
    if not isinstance(d, sf.Bus):
        problems.append((f'{PID}:bus:{opname}:not-a-bus', f'{opname} returned {type(d).__name__}'))
        return
    got = list(d.index)
    if got != want_labels:
        problems.append((f'{PID}:bus:{opname}:labels', f'{opname}: derived labels {got} != {want_labels}'))
        return
    pr = []
    n0 = len(actual_loaded(d, pr))
    problems.extend(pr)
    if mp is not None and n0 > mp:
        problems.append((f'{PID}:bus:max_persist-exceeded', f'{opname}: derived Bus starts with {n0} loaded > max_persist {mp}'))
    if d._max_persist != mp:
        problems.append((f'{PID}:bus:derived-loses-max_persist', f'{opname}: derived Bus has max_persist {d._max_persist}, parent {mp}'))
    held = [(l, v) for l, v in zip(want_labels, d._series.values) if isinstance(v, sf.Frame)]
    for l, v in held:
        check_frame(v, l, world, mp, opname + '/held', problems)
    if deep and not problems:
        for i, l in enumerate(want_labels):
            check_frame(d.iloc[i], l, world, mp, opname + '/derived', problems)
            pr = []
            k = len(actual_loaded(d, pr))
            problems.extend(pr)
            if mp is not None and k > mp:
                problems.append((f'{PID}:bus:max_persist-exceeded', f'{opname}: derived Bus holds {k} loaded > max_persist {mp}'))
                break


def apply_op(bus, model, op, world, last=False):
    """perform op on the real bus, advance the model; returns (bus to continue with, model, problems)"""
    import static_frame as sf
    problems = []
    k = len(model.labels)
    kind = op[0]
    mp = model.mp
    name = kind
    if k == 0:
        return bus, model, problems
    labels = model.labels
    sel = selected_positions(op, k)
    sel_labels = None if sel is None else [labels[i] for i in sel]
    new_bus, new_model = bus, model

    if kind == 'loc':
        r = bus[labels[sel[0]]]
        model.touch(sel_labels[0])
        check_frame(r, sel_labels[0], world, mp, name, problems)
    elif kind == 'iloc':
        r = bus.iloc[op[1] if -k <= op[1] < k else op[1] % k]
        model.touch(sel_labels[0])
        check_frame(r, sel_labels[0], world, mp, name, problems)
    elif kind == 'get':
        r = bus.get(sel_labels[0])
        check_frame(r, sel_labels[0], world, mp, name, problems)
        pr = []
        if sel_labels[0] in actual_loaded(bus, pr):
            model.touch(sel_labels[0])                       # get() is an access: it loads the Frame and refreshes its recency
        rm = bus.get('no-such-label', 'dflt')
        if rm != 'dflt':
            problems.append((f'{PID}:bus:get:default', f'get of a missing label returned {rm!r}'))
    elif kind in ('list', 'slice', 'bool', 'islice', 'ilist', 'head', 'tail', 'sel', 'isel'):
        if kind in ('list', 'sel'):
            r = bus[list(sel_labels)]
        elif kind == 'slice':
            r = bus[sel_labels[0]:sel_labels[-1]] if sel_labels else bus[labels[0]:labels[0]]
        elif kind == 'bool':
            r = bus[np.array([i in sel for i in range(k)], dtype=bool)]
        elif kind == 'islice':
            r = bus.iloc[slice(op[1], op[2], op[3])]
        elif kind == 'isel':
            r = bus.iloc[op[1]:]
        elif kind == 'ilist':
            r = bus.iloc[list(sel)]
        elif kind == 'head':
            r = bus.head(op[1])
        else:
            r = bus.tail(op[1])
        model.pending_amb = False
        for l in sel_labels:
            model.touch(l)
        if len(sel_labels) == 1 and kind in ('list', 'ilist', 'bool', 'slice', 'islice', 'head', 'tail', 'sel', 'isel') and isinstance(r, sf.Frame):
            problems.append((f'{PID}:bus:{name}:not-a-bus', f'{name} selecting one label through a multi-key returned a Frame'))
        else:
            if kind in ('sel', 'isel'):
                # continue the history on the selection result
                check_derived(r, sel_labels, world, mp, name, problems, deep=False)
                if isinstance(r, sf.Bus) and list(r.index) == sel_labels:
                    pr = []
                    ld = actual_loaded(r, pr)
                    new_bus, new_model = r, Model(sel_labels, mp, loaded=ld, ambiguous=True)
                    new_model.touched = set(sel_labels)       # all were accessed through the selection
            else:
                check_derived(r, sel_labels, world, mp, name, problems)
    elif kind == 'items':
        r = list(bus.items())
        model.pending_amb = False
        for l in sel_labels:
            model.touch(l)
        if [l for l, _ in r] != labels:
            problems.append((f'{PID}:bus:items:labels', f'items() labels {[l for l, _ in r]} != {labels}'))
        else:
            for l, f in r:
                check_frame(f, l, world, mp, name, problems)
    elif kind == 'values':
        r = bus.values
        model.pending_amb = False
        for l in sel_labels:
            model.touch(l)
        if len(r) != k:
            problems.append((f'{PID}:bus:values:length', f'values has length {len(r)} != {k}'))
        else:
            for l, f in zip(labels, r):
                check_frame(f, l, world, mp, name, problems)
    elif kind == 'iter':
        got = list(iter(bus))
        got2 = list(bus.keys())
        if got != labels or got2 != labels or len(bus) != k or (labels[0] in bus) is not True or list(reversed(bus)) != labels[::-1]:
            problems.append((f'{PID}:bus:iter:labels', f'iteration gives {got} / keys {got2} / len {len(bus)}, expected {labels}'))
    elif kind == 'status':
        st = bus.status
        sh = bus.shapes
        if list(st.index) != labels or list(sh.index) != labels:
            problems.append((f'{PID}:bus:status:labels', f'status index {list(st.index)} != {labels}'))
        else:
            for l in labels:
                want = world.shapes[l] if l in model.loaded else None
                if not getattr(model, 'pending_amb', False) and (sh[l] != want or st.loc[l, 'shape'] != want):
                    problems.append((f'{PID}:bus:status:shape', f'shape of {l!r}: shapes {sh[l]!r}, status {st.loc[l, "shape"]!r}, expected {want!r}'))
        _ = bus.nbytes, bus.mloc, bus.dtypes
    elif kind in ('drop', 'drop_iloc', 'reindex', 'sort'):
        if kind == 'drop':
            want = [l for i, l in enumerate(labels) if i != op[1] % k]
            r = bus.drop[labels[op[1] % k]]
        elif kind == 'drop_iloc':
            want = [l for i, l in enumerate(labels) if i != op[1] % k]
            r = bus.drop.iloc[op[1]]
        elif kind == 'reindex':
            want = labels[1:] + labels[:1]
            r = bus.reindex(want, fill_value=None)
        else:
            want = sorted(labels, reverse=not op[1])
            r = bus.sort_index(ascending=op[1])
        check_derived(r, want, world, mp, name, problems, deep=False)
        if isinstance(r, sf.Bus) and list(r.index) == want:
            pr = []
            ld = actual_loaded(r, pr)
            carried = {l for l in want if l in model.loaded}
            if ld != carried and not getattr(model, 'pending_amb', False):
                problems.append((f'{PID}:bus:{name}:loaded-state', f'{name}: derived Bus has loaded {sorted(ld)}, parent had {sorted(carried)} of these labels loaded'))
            new_bus, new_model = r, Model(want, mp, loaded=ld, ambiguous=True)
            new_model.touched = set(model.touched) & set(want)
    else:
        raise RuntimeError(f'unknown op {op}')

    # state after the op, observed on the bus the op was applied to
    pr = []
    ld = actual_loaded(bus, pr, full=last or kind == 'status')
    problems.extend(pr)
    if mp is not None and len(ld) > mp:
        problems.append((f'{PID}:bus:max_persist-exceeded', f'after {op}: {len(ld)} Frames loaded {sorted(ld)} > max_persist {mp}'))
    if not problems:
        for l, v in zip(bus._series._index, bus._series.values):
            if isinstance(v, sf.Frame):
                check_frame(v, l, world, mp, name + '/held', problems)
    if getattr(model, 'pending_amb', False):
        # eviction inside an ambiguous group: accept any outcome of the right size that evicts only group members
        extra = ld - model.loaded
        gone = model.loaded - ld
        if extra or not gone <= model.amb or (mp is not None and len(ld) != min(mp, len(model.loaded))):
            problems.append((f'{PID}:bus:lru-order', f'after {op}: loaded {sorted(ld)}; model {sorted(model.loaded)} with ambiguous group {sorted(model.amb)}'))
        model.loaded = set(ld)
        model.rec = [l for l in model.rec if l in ld]
        model.amb &= ld
        model.pending_amb = False
    elif ld != model.loaded:
        never = sorted(l for l in ld if l not in model.touched)
        if never:
            problems.append((f'{PID}:bus:not-lazy', f'after {op}: {never} loaded although never accessed'))
        elif mp is None or len(ld) <= mp:
            missing = sorted(model.loaded - ld)
            if mp is None or (kind != 'get'):
                problems.append((f'{PID}:bus:lru-order' if mp is not None else f'{PID}:bus:loaded-set',
                                 f'after {op}: loaded {sorted(ld)} but the LRU model expects {sorted(model.loaded)} (recency {model.rec}, missing {missing}, max_persist {mp})'))
        model.loaded = set(ld)
        model.rec = [l for l in model.rec if l in ld] + [l for l in ld if l not in model.rec]
    return new_bus, new_model, problems


def run_history(world, mp, hist):
    """returns list of (key, what, step)"""
    bus = world.open(mp)
    model = Model(world.labels, mp)
    out = []
    pr = []
    if actual_loaded(bus, pr):
        out.append((f'{PID}:bus:not-lazy', 'Frames are loaded right after opening the Bus', -1))
    for step, op in enumerate(hist):
        try:
            bus, model, problems = apply_op(bus, model, op, world, last=step == len(hist) - 1)
        except Violation:
            raise
        except Exception as e:
            if not from_package(e):
                raise
            out.append((f'{PID}:bus:{op[0]}:raises-{type(e).__name__}', f'{op} raised {e!r} (max_persist={mp}, labels={model.labels})', step))
            break
        out.extend((k, w + f' [history {hist[:step + 1]}, max_persist={mp}, format {world.fmt}, n={world.n}]', step) for k, w in problems)
        if problems:
            break
    return out


# ---------------------------------------------------------------------------------------------
# enumeration

def cases(tier):
    quick = tier == 'quick'
    fmts, _ = formats()
    # F: store faithfulness
    for fmt in fmts:
        for n in (1, 2, 3, 4):
            for world in (0, 1, 2, 3) if not quick else (0, 2):
                yield dict(phase='F', fmt=fmt, n=n, world=world)
        for n in (5, 6):      # worlds holding a label whose exporter options differ from the default config
            yield dict(phase='F', fmt=fmt, n=n, world=0)
    # H: histories
    for fmt in fmts:
        primary = fmt == 'zip_pickle'
        for n in (1, 2, 3, 4):
            for world in (0,):
                plan = history_plan(tier, primary, n)
                for mp in [None] + list(range(1, n + 1)):
                    seen = set()
                    for size, length, mp_ok in plan:
                        if not mp_ok(mp):
                            continue
                        for hist in itertools.product(op_alphabet(n, size), repeat=length):
                            key = repr(hist)
                            if key in seen:
                                continue
                            seen.add(key)
                            yield dict(phase='H', fmt=fmt, n=n, world=world, mp=mp, hist=[list(o) for o in hist])
    # X: one Frame loaded, then ONE selection mixing it with unloaded labels (longer than max_persist), then every label again
    for fmt in (fmts if not quick else ['zip_pickle', 'sqlite']):
        n = 6
        for mp in (2, 3) if quick else (1, 2, 3, 4, 5):
            for first in range(n):
                others = [i for i in range(n) if i != first]
                for pos in range(0, n - 1):
                    for rev in (False, True):
                        for drop in ((None,) if quick else (None, 0, 1)):
                            o = others[::-1] if rev else list(others)
                            if drop is not None:
                                o = o[:drop] + o[drop + 1:]
                            sel = o[:pos] + [first] + o[pos:]
                            for how in ('ilist', 'list'):
                                if quick and how == 'list' and fmt != 'zip_pickle':
                                    continue
                                hist = [('loc', first), (how, sel)] + [('loc', i) for i in range(n)]
                                yield dict(phase='H', fmt=fmt, n=n, world=0, mp=mp, hist=[list(o_) for o_ in hist])
    # M: file mutation after a prefix
    for fmt in fmts:
        for n in (2, 3) if quick else (1, 2, 3, 4):
            for mp in [None, 1, 2] if quick else [None] + list(range(1, n + 1)):
                if mp is not None and mp > n:
                    continue
                small = op_alphabet(n, 'small')
                probes = probe_alphabet(n)
                for plen in ((0, 1, 2) if fmt == 'zip_pickle' else (0, 1)) if quick else (0, 1, 2):
                    for prefix in itertools.product(small, repeat=plen):
                        for kind in ('touch', 'touch-back', 'rewrite', 'delete'):
                            yield dict(phase='M', fmt=fmt, n=n, world=0, mp=mp, hist=[list(o) for o in prefix], kind=kind,
                                       probes=[list(o) for o in probes])


def _tup(o):
    return tuple(o)


class Worlds:
    def __init__(self, tmp):
        self.tmp, self.cache, self.specs = tmp, {}, formats()[0]

    def get(self, fmt, n, world):
        k = (fmt, n, world)
        if k not in self.cache:
            self.cache[k] = World(self.tmp, fmt, self.specs[fmt], n, world)
        return self.cache[k]


def eval_faithful(rep, case, worlds):
    import static_frame as sf
    fmt, n, wi = case['fmt'], case['n'], case['world']
    spec = worlds.specs[fmt]
    frames = make_frames(n, wi)
    labels = [f.name for f in frames]
    cfg = make_config(labels)
    miss = fmt == 'sqlite'
    strict = fmt == 'zip_pickle'
    rp = dict(case)
    fp = os.path.join(worlds.tmp, f'faith_{fmt}_{n}_{wi}{spec[0]}')
    fp2 = os.path.join(worlds.tmp, f'faith2_{fmt}_{n}_{wi}{spec[0]}')

    def compare(route, got_labels, got_frames):
        rep.count(distinct_key=(route, fmt, n, wi), sample=dict(route=route, fmt=fmt, labels=labels))
        if list(got_labels) != labels:
            rep.fail(f'{PID}:store:{fmt}:labels-order', f'{route}: labels read back {list(got_labels)} != written {labels}', rp)
            return
        for l, f, g in zip(labels, frames, got_frames):
            if not isinstance(g, sf.Frame):
                rep.fail(f'{PID}:store:{fmt}:not-a-frame', f'{route}: {l!r} came back as {type(g).__name__}', rp)
            elif strict and snapshot(g) != snapshot(f):
                rep.fail(f'{PID}:store:{fmt}:frame-differs', f'{route}: {l!r}: {str(snapshot(g))[:200]} != written {str(snapshot(f))[:200]}', rp)
            elif not strict and loose_sig(g, miss) != loose_sig(f, miss):
                rep.fail(f'{PID}:store:{fmt}:frame-differs', f'{route}: {l!r}: {str(loose_sig(g, miss))[:300]} != written {str(loose_sig(f, miss))[:300]}', rp)

    try:
        # route 1: Store.write / Store.labels / Store.read_many / Store.read
        st = store_class(spec)(fp)
        st.write(((f.name, f) for f in frames), config=None if strict else cfg)
        st2 = store_class(spec)(fp)
        got_labels = list(st2.labels(config=cfg))
        compare('store.read_many', got_labels, list(st2.read_many(labels, config=cfg)))
        compare('store.read', got_labels, [st2.read(l, config=cfg[l]) for l in labels])
        rev = labels[::-1]
        compare('store.read_many(reversed)', got_labels, list(st2.read_many(rev, config=cfg))[::-1])
        # route 2: Bus exporter / constructor, all max_persist values
        src = sf.Bus.from_frames(frames)
        getattr(src, spec[1])(fp, config=None if strict else cfg)
        for mp in [None] + list(range(1, n + 1)):
            b = getattr(sf.Bus, spec[2])(fp, config=cfg, max_persist=mp)
            pairs = list(b.items())
            compare(f'bus.items(max_persist={mp})', [l for l, _ in pairs], [f for _, f in pairs])
            # route 3: re-export of a lazily loaded, bounded Bus
            b = getattr(sf.Bus, spec[2])(fp, config=cfg, max_persist=mp)
            getattr(b, spec[1])(fp2, config=None if strict else cfg)
            b2 = getattr(sf.Bus, spec[2])(fp2, config=cfg)
            compare(f're-export(max_persist={mp})', list(b2.index), list(b2.values))
            if mp is not None and int(b.status['loaded'].sum()) > mp:
                rep.fail(f'{PID}:bus:max_persist-exceeded', f'after to_{fmt} of a lazy Bus {int(b.status["loaded"].sum())} loaded > {mp}', rp)
    except Exception as e:
        if not from_package(e):
            raise
        rep.count()
        rep.fail(f'{PID}:store:{fmt}:raises-{type(e).__name__}', f'write/read of {labels} raised {e!r}', rp)
    finally:
        for p in (fp, fp2):
            if os.path.exists(p):
                os.remove(p)


def eval_history(rep, case, worlds):
    w = worlds.get(case['fmt'], case['n'], case['world'])
    hist = [_tup(o) for o in case['hist']]
    touching = sum(1 for o in hist if selected_positions(o, case['n']) is not None)
    rep.count(distinct_key=repr((case['fmt'], case['n'], case['world'], case['mp'], hist)) if touching else None,
              sample=dict(fmt=case['fmt'], n=case['n'], mp=case['mp'], hist=case['hist']))
    for key, what, step in run_history(w, case['mp'], hist):
        rep.fail(key, what, dict(case, hist=case['hist'][:step + 1] if step >= 0 else []))


def mutate(w, kind):
    """returns an undo function"""
    fp = w.fp
    st = os.stat(fp)
    if kind == 'touch':
        os.utime(fp, ns=(st.st_atime_ns, st.st_mtime_ns + 2 * 10 ** 9))
        return lambda: os.utime(fp, ns=(st.st_atime_ns, st.st_mtime_ns))
    if kind == 'touch-back':      # replaced by a file with an OLDER modification time (restored backup, cp -p, mtime-preserving extraction)
        os.utime(fp, ns=(st.st_atime_ns, st.st_mtime_ns - 5 * 10 ** 9))
        return lambda: os.utime(fp, ns=(st.st_atime_ns, st.st_mtime_ns))
    if kind == 'rewrite':
        w.write()
        st2 = os.stat(fp)
        if st2.st_mtime_ns == st.st_mtime_ns:
            os.utime(fp, ns=(st2.st_atime_ns, st.st_mtime_ns + 3 * 10 ** 9))
        return lambda: None
    os.rename(fp, fp + '.gone')
    return lambda: os.rename(fp + '.gone', fp)


def eval_mutation(rep, case, worlds):
    import static_frame as sf
    from static_frame.core.exception import StoreFileMutation
    w = worlds.get(case['fmt'], case['n'], case['world'])
    hist = [_tup(o) for o in case['hist']]
    mp = case['mp']
    for probe in case['probes']:
        probe = _tup(probe)
        # replay the prefix on a fresh Bus (prefix correctness is the history phase's business)
        bus = w.open(mp)
        model = Model(w.labels, mp)
        ok = True
        for op in hist:
            bus, model, problems = apply_op(bus, model, op, w)
            if problems:
                ok = False
                break
        if not ok or not model.labels:
            continue
        sel = selected_positions(probe, len(model.labels))
        if sel is None or probe[0] in ('get',):
            continue
        sel_labels = [model.labels[i] for i in sel]
        pr = []
        loaded_now = actual_loaded(bus, pr)
        model.loaded = set(loaded_now)
        if not model.needs_read(sel_labels):
            continue
        rep.count(distinct_key=repr((case['fmt'], case['n'], mp, hist, case['kind'], probe)),
                  sample=dict(fmt=case['fmt'], mp=mp, prefix=case['hist'], kind=case['kind'], probe=list(probe)))
        rp = dict(case, probes=[list(probe)])
        undo = mutate(w, case['kind'])
        try:
            try:
                apply_op(bus, model, probe, w)
                rep.fail(f'{PID}:mutation:{case["fmt"]}:{case["kind"]}:no-error',
                         f'file {case["kind"]} after {hist}: access {probe} (needs a store read; loaded {sorted(loaded_now)}) returned data instead of raising StoreFileMutation (max_persist={mp})', rp)
            except StoreFileMutation:
                pass
            except Exception as e:
                if not from_package(e):
                    raise
                rep.fail(f'{PID}:mutation:{case["fmt"]}:{case["kind"]}:raises-{type(e).__name__}',
                         f'file {case["kind"]} after {hist}: access {probe} raised {e!r} instead of StoreFileMutation (max_persist={mp})', rp)
        finally:
            undo()
    # a fresh Store object on the (restored) file must work again
    if case['kind'] == 'delete' and not hist:
        rep.count()
        try:
            b = w.open(mp)
            check = []
            check_frame(b.iloc[0], w.labels[0], w, mp, 'reopen', check)
            for k, what in check:
                rep.fail(k, what + ' [after restoring the file]', dict(case))
        except Exception as e:
            rep.fail(f'{PID}:mutation:{case["fmt"]}:reopen-raises-{type(e).__name__}', f'reopening after restore raised {e!r}', dict(case))


# ---------------------------------------------------------------------------------------------
# drivers

RULE = ('F: 1..4 frames (4 shapes/dtype mixes/label depths, rotated) x every offline format x {Store API, Bus API, lazy bounded re-export} x '
        'max_persist in {None,1..n}; H: every history over the op alphabet (label, list, slice, Boolean, iloc int/slice/list, head/tail, items, '
        'values, iteration, status/shapes, get, drop, reindex, sort_index, continue-on-selection) up to the stated length, per-label StoreConfigMap; '
        'M: every prefix (len<=2, small alphabet) x {touch, rewrite, delete} x every probe access that needs a store read. '
        'Non-trivial: history contains >= 1 loading access / probe requires a read')


def _bound(tier, skipped):
    b = ('quick: zip-pickle full alphabet (n+21 ops) length<=2, medium (n+10) length 3 (n=2,3), small (n+4) length 3-4, single-label alphabet length 4-5 '
         '(the longest lengths for selected max_persist values, see history_plan); '
         'csv/tsv/sqlite full length 1, medium length 2, single-label length 3; mutation prefixes length<=2 (pickle) / <=1; '
         if tier == 'quick' else
         'thorough: zip-pickle full alphabet length<=3, medium length 4, small length 5, single-label length 6; csv/tsv/sqlite full length<=2, medium 3, small 4; '
         'mutation prefixes length<=2; ')
    return b + 'n <= 4 Frames, max_persist in {None,1..n}; optional formats not installed and skipped: ' + (', '.join(skipped) or 'none')


def _run(task, phases, name):
    tier = task.get('tier', 'quick')
    _, skipped = formats()
    rep = Report(name, task, rule=RULE + ' Added: worlds of 5-6 Frames with one label written without its index (per-label exporter options differ from the default); X: one Frame loaded, then ONE selection mixing it with unloaded labels (longer than max_persist, loaded label at every position, both orders), then every label again; M also replaces the file by one with an OLDER modification time.', bound=_bound(tier, skipped))
    rep.assumptions.update(f'format {s} not installed: skipped' for s in skipped)
    with tempfile.TemporaryDirectory(dir=os.environ.get('VERIF_SCRATCH', '/var/tmp'), prefix='a7c17_') as tmp:
        worlds = Worlds(tmp)
        for case in rep.shard(c for c in cases(tier) if c['phase'] in phases):
            try:
                if case['phase'] == 'F':
                    eval_faithful(rep, case, worlds)
                elif case['phase'] == 'H':
                    eval_history(rep, case, worlds)
                else:
                    eval_mutation(rep, case, worlds)
            except Exception:
                rep.error(f'harness {case}')
    return rep.done()


def run(repo, task):
    return _run(task, 'FHM', 'C17-bus-store')


def run_store(repo, task):
    return _run(task, 'F', 'C17-store-faithful')


def run_history_phase(repo, task):
    return _run(task, 'H', 'C17-bus-history')


def run_mutation(repo, task):
    return _run(task, 'M', 'C17-file-mutation')


def replay(repo, rp):
    case = {k: v for k, v in rp.items() if k != 'task'}
    rep = Report('C17-replay', dict(tier='quick'), rule='', bound='')
    with tempfile.TemporaryDirectory(dir=os.environ.get('VERIF_SCRATCH', '/var/tmp'), prefix='a7c17r_') as tmp:
        worlds = Worlds(tmp)
        try:
            if case['phase'] == 'F':
                eval_faithful(rep, case, worlds)
            elif case['phase'] == 'H':
                eval_history(rep, case, worlds)
            else:
                eval_mutation(rep, case, worlds)
        except Exception:
            rep.error('replay')
    out = rep.done()
    if out['status'] != 'ok':
        return dict(outcome='error', detail=out.get('detail'))
    return dict(outcome='fail' if out['failures'] else 'pass', detail=[f['key'] + ': ' + f['what'][:300] for f in out['failures']])
