"""C07 bounded stand-in: no lossy coercion when values of different types meet.

Contract (run-time, real package).  For every ordered pair (A, B) of dtype kinds and every merging operation of
the catalogue, the operation is fed an array `a` of kind A and either an array `b` or a single element `e` of kind
B.  The harness knows, for every cell of the result, WHICH supplied element it must hold; the contract is

    for every result cell:  stored  ==  supplied   in the sense of the property text:
        * same Python type class (bool / int / float / complex / str / bytes / datetime64 / timedelta64 / None / tuple);
          an int may be stored as a float (or a float as an int) only if the value is exactly the same
        * str / bytes: same length and content (never truncated)
        * ints: exact value (2**53+1, 2**64-1, 2**70 keep their value)
        * NaN stays NaN, NaT stays NaT, None stays None
    for every column the operation does not address:  dtype identical to the input column's dtype.

An operation that *refuses* the combination (raises) stores nothing and is not a violation; refusals are tallied in
the `notes` of the result.  str x bytes mixes are outside the claim and skipped.
Failure keys name the defect class; a loss that is reproduced by the shared helper on the same inputs is attributed
to the helper (`resolve_dtype` numeric promotion, `prepare_iter_for_array` / np.array auto-detection) instead of the
calling operation, so that one root cause gives one key."""
from __future__ import annotations
import datetime
import itertools
import numpy as np
from .common import Report, frame_from

NAN = float('nan')


# ---------------------------------------------------------------------------------------------
# dtype kinds and their sample values

def _kinds(alt=False):
    """sample arrays per dtype kind; alt=True gives a second value set (thorough tier)"""
    if alt:
        return _kinds_alt()
    K = {}
    K['bool'] = np.array([True, False, True], dtype=bool)
    K['int8'] = np.array([-128, 5, 127], dtype=np.int8)
    K['int64'] = np.array([-(2 ** 63), 2 ** 53 + 1, 7], dtype=np.int64)
    K['uint8'] = np.array([0, 255, 7], dtype=np.uint8)
    K['uint64'] = np.array([2 ** 64 - 1, 2 ** 53 + 1, 3], dtype=np.uint64)
    K['float16'] = np.array([1.5, NAN, -2.0], dtype=np.float16)
    K['float64'] = np.array([0.1, NAN, -1e300], dtype=np.float64)
    K['complex128'] = np.array([1 + 2j, complex(NAN, 0), -3.5j], dtype=np.complex128)
    K['U1'] = np.array(['a', 'b', 'c'], dtype='<U1')
    K['U5'] = np.array(['hello', 'x', 'wörld'], dtype='<U5')
    K['U21'] = np.array(['a-long-string-of-21-c', 'yy', 'zzz'], dtype='<U21')
    K['S1'] = np.array([b'a', b'b', b'c'], dtype='S1')
    K['S5'] = np.array([b'hello', b'x', b'wxyz!'], dtype='S5')
    K['M8[D]'] = np.array(['2020-01-01', 'NaT', '1969-12-31'], dtype='M8[D]')
    K['M8[s]'] = np.array(['2020-01-01T00:00:01', 'NaT', '1969-12-31T23:59:59'], dtype='M8[s]')
    K['M8[ns]'] = np.array(['2020-01-01T00:00:00.000000001', 'NaT', '1969-12-31T23:59:59.999999999'], dtype='M8[ns]')
    K['m8[D]'] = np.array([5, 'NaT', -3], dtype='m8[D]')
    K['m8[ns]'] = np.array([1, 'NaT', -7], dtype='m8[ns]')
    oa = np.empty(3, dtype=object)
    oa[:] = [None, 'text-long', 2 ** 70]
    K['object-a'] = oa
    ob = np.empty(3, dtype=object)
    ob[:] = [2 ** 53 + 1, True, 1.5]
    K['object-b'] = ob
    for v in K.values():
        v.flags.writeable = False
    return K


def _kinds_alt():
    K = {}
    K['bool'] = np.array([False, False, True], dtype=bool)
    K['int8'] = np.array([1, -1, 0], dtype=np.int8)
    K['int64'] = np.array([2 ** 63 - 1, -(2 ** 53 + 1), 0], dtype=np.int64)
    K['uint8'] = np.array([1, 128, 0], dtype=np.uint8)
    K['uint64'] = np.array([2 ** 63, 0, 2 ** 53 + 3], dtype=np.uint64)
    K['float16'] = np.array([65504.0, -0.5, NAN], dtype=np.float16)
    K['float64'] = np.array([2.0 ** 70, NAN, 5e-324], dtype=np.float64)
    K['complex128'] = np.array([complex(0, NAN), 2 ** 0.5 + 0j, 1e300j], dtype=np.complex128)
    K['U1'] = np.array(['é', ' ', 'z'], dtype='<U1')
    K['U5'] = np.array(['  pad', 'tab\t', 'q'], dtype='<U5')
    K['U21'] = np.array(['x' * 21, 'y', 'zz zz'], dtype='<U21')
    K['S1'] = np.array([b'z', b' ', b'0'], dtype='S1')
    K['S5'] = np.array([b'12345', b'1', b'ab cd'], dtype='S5')
    K['M8[D]'] = np.array(['NaT', '2262-04-11', '1677-09-22'], dtype='M8[D]')
    K['M8[s]'] = np.array(['NaT', '2038-01-19T03:14:08', '1901-12-13T20:45:52'], dtype='M8[s]')
    K['M8[ns]'] = np.array(['NaT', '2262-04-11T23:47:16.854775807', '1970-01-01T00:00:00.000000000'], dtype='M8[ns]')
    K['m8[D]'] = np.array(['NaT', 106751, 0], dtype='m8[D]')
    K['m8[ns]'] = np.array(['NaT', 2 ** 62, -1], dtype='m8[ns]')
    oa = np.empty(3, dtype=object)
    oa[:] = [NAN, 'another-long-text', -(2 ** 70)]
    K['object-a'] = oa
    ob = np.empty(3, dtype=object)
    ob[:] = [False, 2 ** 63 + 1, None]
    K['object-b'] = ob
    for v in K.values():
        v.flags.writeable = False
    return K


KIND_NAMES = ['bool', 'int8', 'int64', 'uint8', 'uint64', 'float16', 'float64', 'complex128', 'U1', 'U5', 'U21', 'S1', 'S5',
              'M8[D]', 'M8[s]', 'M8[ns]', 'm8[D]', 'm8[ns]', 'object-a', 'object-b']
STR_KINDS = ('U1', 'U5', 'U21')
BYTES_KINDS = ('S1', 'S5')
# element-only pseudo kinds (no array form): Python ints of several magnitudes, special floats, tuple (only for single-element interfaces)
ELEMENT_ONLY = {
    'pyint': [2 ** 70, 2 ** 63 + 1, -(2 ** 53 + 1), -5],
    'pyfloat': [NAN, 1e300, 2.0 ** 70],
    'none': [None],
    'nat': [np.datetime64('NaT'), np.timedelta64('NaT')],
    'tuple': [(1, 'a')],
}


def elems(arr):
    """supplied elements of an array, as the objects NumPy hands out (np scalars / stored objects)"""
    return list(arr)


def pyform(x):
    """Python-level form of an element (what a user would write in a record)"""
    if isinstance(x, (np.datetime64, np.timedelta64)):
        return x
    if isinstance(x, np.generic):
        return x.item()
    return x


def elements_of(kind, K):
    """(tag, element) list for the element slot"""
    if kind in ELEMENT_ONLY:
        return [(f'{kind}{i}', v) for i, v in enumerate(ELEMENT_ONLY[kind])]
    out = []
    for i, x in enumerate(elems(K[kind])):
        out.append((f'np{i}', x))
        p = pyform(x)
        if type(p) is not type(x):
            out.append((f'py{i}', p))
    return out


# ---------------------------------------------------------------------------------------------
# the cell contract

def normalize(x):
    if x is None:
        return 'none', None
    if isinstance(x, np.datetime64):
        return 'datetime', x
    if isinstance(x, np.timedelta64):       # NB: a subclass of np.signedinteger
        return 'timedelta', x
    if isinstance(x, (bool, np.bool_)):
        return 'bool', bool(x)
    if isinstance(x, (int, np.integer)):
        return 'int', int(x)
    if isinstance(x, (float, np.floating)):
        return 'float', float(x)
    if isinstance(x, (complex, np.complexfloating)):
        return 'complex', complex(x)
    if isinstance(x, (str, np.str_)):
        return 'str', str(x)
    if isinstance(x, (bytes, np.bytes_)):
        return 'bytes', bytes(x)
    if isinstance(x, (datetime.datetime, datetime.date)):
        return 'datetime', np.datetime64(x)
    if isinstance(x, datetime.timedelta):
        return 'timedelta', np.timedelta64(x)
    if isinstance(x, tuple):
        return 'tuple', x
    return 'other', x


def _nan_eq(a, b):
    return a == b or (a != a and b != b)


def is_missing(x):
    c, v = normalize(x)
    if c == 'none':
        return True
    if c in ('float', 'complex'):
        return v != v
    if c in ('datetime', 'timedelta'):
        return bool(np.isnat(v))
    return False


def compare(stored, supplied, lenient_missing=False):
    """None when the stored cell equals the supplied element in the sense of the property; else the defect class"""
    cs, vs = normalize(supplied)
    ct, vt = normalize(stored)
    if lenient_missing and is_missing(supplied):
        return None if is_missing(stored) else f'missing-became-{ct}'
    if cs == 'none':
        return None if ct == 'none' else f'none-became-{ct}'
    if cs == 'bool':
        if ct != 'bool':
            return f'bool-cast-to-{ct}'
        return None if vt == vs else 'bool-value-changed'
    if cs == 'int':
        if ct == 'int':
            return None if vt == vs else 'int-value-changed'
        if ct == 'float':
            return None if vt == vs else 'int-to-float-inexact'
        if ct == 'complex':
            return None if (vt.imag == 0 and vt.real == vs) else 'int-to-float-inexact'
        return f'int-cast-to-{ct}'
    if cs == 'float':
        if ct in ('float', 'int'):
            return None if _nan_eq(vt, vs) else ('nan-changed' if vs != vs else 'float-value-changed')
        if ct == 'complex':
            return None if (_nan_eq(vt.real, vs) and vt.imag == 0) else 'float-value-changed'
        return f'float-cast-to-{ct}'
    if cs == 'complex':
        if ct == 'complex':
            return None if (_nan_eq(vt.real, vs.real) and _nan_eq(vt.imag, vs.imag)) else 'complex-value-changed'
        return f'complex-cast-to-{ct}'
    if cs in ('str', 'bytes'):
        if ct != cs:
            return f'{cs}-cast-to-{ct}'
        if vt == vs:
            return None
        return f'{cs}-truncated' if (len(vt) < len(vs) and vs.startswith(vt)) else f'{cs}-value-changed'
    if cs in ('datetime', 'timedelta'):
        if ct != cs:
            return f'{cs}-cast-to-{ct}'
        if np.isnat(vs) or np.isnat(vt):
            return None if (np.isnat(vs) and np.isnat(vt)) else 'nat-changed'
        return None if bool(vt == vs) else f'{cs}-value-changed'
    if cs == 'tuple':
        return None if (ct == 'tuple' and vt == vs) else f'tuple-became-{ct}'
    return None if stored is supplied or stored == supplied else 'object-changed'


class Obs:
    """what one operation produced: (stored, supplied, where) cells, (actual, expected, where) untouched dtypes"""
    __slots__ = ('cells', 'dtypes', 'merged', 'lenient', 'build')

    def __init__(self, merged=(), lenient=False, build=None):
        self.cells, self.dtypes = [], []
        self.merged = list(merged)      # dtypes / elements that were merged (for root attribution)
        self.lenient = lenient
        self.build = build              # list of elements handed to an array-building helper (root attribution)

    def arr(self, array, supplied, where):
        array = np.asarray(array) if not isinstance(array, np.ndarray) else array
        got = list(array.ravel()) if array.dtype.kind != 'O' else list(array.ravel())
        if len(got) != len(supplied):
            self.cells.append((('len', len(got)), ('len', len(supplied)), where + ':length'))
            return self
        for i, (g, s) in enumerate(zip(got, supplied)):
            self.cells.append((g, s, f'{where}[{i}]'))
        return self

    def dtype(self, actual, expected, where):
        self.dtypes.append((actual, expected, where))
        return self


def fcol(f, j):
    tb = f._blocks
    return tb._extract_array_column(j) if hasattr(tb, '_extract_array_column') else tb._extract_array(None, j)


# ---------------------------------------------------------------------------------------------
# frames used by the frame operations:  x, x2 : kind A (x2 = reversed a),  y : <U2,  z : int16

IDX = ['a', 'b', 'c']
IDX_OBJ = ['a', 1, 'c']
Y = np.array(['p', 'qq', 'r'], dtype='<U2')
Z = np.array([1, 2, 3], dtype=np.int16)
LAYOUTS = {0: ((1, True), (1, True), (1, True), (1, True)), 1: ((2, False), (1, False), (1, True))}


def mk_frame(a, layout, index=IDX):
    cols = [a, a[::-1].copy(), Y, Z]
    return frame_from(cols, LAYOUTS[layout], index=list(index), column_labels=['x', 'x2', 'y', 'z'])


def with_missing(a):
    """positions of a that are missing"""
    return [is_missing(x) for x in elems(a)]


def edt(e):
    from static_frame.core.util import dtype_from_element
    return dtype_from_element(e)


# ---------------------------------------------------------------------------------------------
# catalogue: element operations  (ctx: a, A, e, lay)

def _untouched_frame(o, f, a, skip=()):
    exp = {'x': a.dtype, 'x2': a.dtype, 'y': Y.dtype, 'z': Z.dtype}
    src = {'x': elems(a), 'x2': elems(a[::-1]), 'y': elems(Y), 'z': elems(Z)}
    for j, name in enumerate(['x', 'x2', 'y', 'z']):
        if name in skip:
            continue
        c = fcol(f, j)
        o.dtype(c.dtype, exp[name], f'column {name}')
        o.arr(c, src[name], f'column {name}')
    return o


def e_series_reindex(c):
    import static_frame as sf
    r = sf.Series(c.a, index=IDX).reindex(['c', 'zz', 'a', 'qq'], fill_value=c.e)
    A = elems(c.a)
    return Obs([c.a.dtype, c.e]).arr(r.values, [A[2], c.e, A[0], c.e], 'values')


def e_series_shift(c):
    import static_frame as sf
    A = elems(c.a)
    o = Obs([c.a.dtype, c.e])
    o.arr(sf.Series(c.a, index=IDX).shift(1, fill_value=c.e).values, [c.e, A[0], A[1]], 'shift(1)')
    o.arr(sf.Series(c.a, index=IDX).shift(-2, fill_value=c.e).values, [A[2], c.e, c.e], 'shift(-2)')
    return o


def e_frame_reindex_index(c):
    f = mk_frame(c.a, c.lay).reindex(index=['c', 'zz', 'a'], fill_value=c.e)
    A, A2 = elems(c.a), elems(c.a[::-1])
    o = Obs([c.a.dtype, c.e])
    o.arr(fcol(f, 0), [A[2], c.e, A[0]], 'x').arr(fcol(f, 1), [A2[2], c.e, A2[0]], 'x2')
    o.arr(fcol(f, 2), [Y[2], c.e, Y[0]], 'y').arr(fcol(f, 3), [Z[2], c.e, Z[0]], 'z')
    return o


def e_frame_reindex_columns(c):
    f = mk_frame(c.a, c.lay).reindex(columns=['z', 'new', 'x', 'y', 'x2'], fill_value=c.e)
    o = Obs([c.e])
    o.arr(fcol(f, 1), [c.e] * 3, 'new')
    for j, (name, src) in {0: ('z', Z), 2: ('x', c.a), 3: ('y', Y), 4: ('x2', c.a[::-1])}.items():
        col = fcol(f, j)
        o.dtype(col.dtype, src.dtype, f'column {name}').arr(col, elems(src), f'column {name}')
    return o


def e_frame_reindex_both(c):
    f = mk_frame(c.a, c.lay).reindex(index=['b', 'zz'], columns=['x', 'new'], fill_value=c.e)
    A = elems(c.a)
    return Obs([c.a.dtype, c.e]).arr(fcol(f, 0), [A[1], c.e], 'x').arr(fcol(f, 1), [c.e, c.e], 'new')


def e_frame_shift_rows(c):
    f = mk_frame(c.a, c.lay).shift(1, 0, fill_value=c.e)
    A, A2 = elems(c.a), elems(c.a[::-1])
    o = Obs([c.a.dtype, c.e])
    o.arr(fcol(f, 0), [c.e, A[0], A[1]], 'x').arr(fcol(f, 1), [c.e, A2[0], A2[1]], 'x2')
    o.arr(fcol(f, 2), [c.e, Y[0], Y[1]], 'y').arr(fcol(f, 3), [c.e, Z[0], Z[1]], 'z')
    return o


def e_frame_shift_cols(c):
    f = mk_frame(c.a, c.lay).shift(0, 1, fill_value=c.e)
    o = Obs([c.e])
    o.arr(fcol(f, 0), [c.e] * 3, 'col0')
    for j, src in {1: c.a, 2: c.a[::-1], 3: Y}.items():
        col = fcol(f, j)
        o.dtype(col.dtype, src.dtype, f'col{j}').arr(col, elems(src), f'col{j}')
    return o


def e_series_assign(c):
    import static_frame as sf
    A = elems(c.a)
    o = Obs([c.a.dtype, c.e])
    o.arr(sf.Series(c.a, index=IDX).assign.iloc[1](c.e).values, [A[0], c.e, A[2]], 'iloc[1]')
    o.arr(sf.Series(c.a, index=IDX).assign.loc['c'](c.e).values, [A[0], A[1], c.e], "loc['c']")
    o.arr(sf.Series(c.a, index=IDX).assign.iloc[:2](c.e).values, [c.e, c.e, A[2]], 'iloc[:2]')
    # a Series value that lacks a targeted label: the caller's fill_value is stored there
    o.arr(sf.Series(c.a, index=IDX).assign.loc[['b', 'c']](sf.Series(c.a[[0]], index=['c']), fill_value=c.e).values, [A[0], c.e, A[0]], "loc[['b','c']](Series lacking 'b', fill_value)")
    return o


def e_frame_assign_cell(c):
    A = elems(c.a)
    o = Obs([c.a.dtype, c.e])
    f = mk_frame(c.a, c.lay).assign.iloc[1, 0](c.e)
    o.arr(fcol(f, 0), [A[0], c.e, A[2]], 'iloc[1,0]:x')
    _untouched_frame(o, f, c.a, skip=('x',))
    f = mk_frame(c.a, c.lay).assign.loc['c', 'x2'](c.e)
    A2 = elems(c.a[::-1])
    o.arr(fcol(f, 1), [A2[0], A2[1], c.e], "loc['c','x2']:x2")
    _untouched_frame(o, f, c.a, skip=('x2',))
    return o


def e_frame_assign_column(c):
    o = Obs([c.e])
    f = mk_frame(c.a, c.lay).assign.iloc[:, 1](c.e)
    o.arr(fcol(f, 1), [c.e] * 3, 'iloc[:,1]:x2')
    _untouched_frame(o, f, c.a, skip=('x2',))
    f = mk_frame(c.a, c.lay).assign['y'](c.e)
    o.arr(fcol(f, 2), [c.e] * 3, "['y']")
    _untouched_frame(o, f, c.a, skip=('y',))
    import static_frame as sf
    f = mk_frame(c.a, c.lay).assign.loc[:, 'x'](sf.Series(c.a[[0]], index=['c']), fill_value=c.e)
    o.merged.append(c.a.dtype)      # here the value Series (kind A) and the fill element are merged
    o.arr(fcol(f, 0), [c.e, c.e, elems(c.a)[0]], "loc[:, 'x'](Series lacking rows, fill_value)")
    _untouched_frame(o, f, c.a, skip=('x',))
    return o


def e_frame_assign_row(c):
    f = mk_frame(c.a, c.lay).assign.iloc[1](c.e)
    A, A2 = elems(c.a), elems(c.a[::-1])
    o = Obs([c.a.dtype, c.e])
    o.arr(fcol(f, 0), [A[0], c.e, A[2]], 'x').arr(fcol(f, 1), [A2[0], c.e, A2[2]], 'x2')
    o.arr(fcol(f, 2), [Y[0], c.e, Y[2]], 'y').arr(fcol(f, 3), [Z[0], c.e, Z[2]], 'z')
    return o


def e_frame_assign_bloc(c):
    import static_frame as sf
    src = mk_frame(c.a, c.lay)
    mask = np.zeros((3, 4), dtype=bool)
    mask[0, 0] = mask[2, 0] = mask[1, 3] = True
    key = sf.Frame(mask, index=src.index, columns=src.columns)
    f = src.assign.bloc[key](c.e)
    A = elems(c.a)
    o = Obs([c.a.dtype, c.e])
    o.arr(fcol(f, 0), [c.e, A[1], c.e], 'x').arr(fcol(f, 3), [Z[0], c.e, Z[2]], 'z')
    _untouched_frame(o, f, c.a, skip=('x', 'z'))
    return o


def _fill_expect(a, e):
    return [e if m else x for x, m in zip(elems(a), with_missing(a))]


def e_series_fillna(c):
    import static_frame as sf
    o = Obs([c.a.dtype, c.e])
    o.arr(sf.Series(c.a, index=IDX).fillna(c.e).values, _fill_expect(c.a, c.e), 'fillna')
    return o


def e_frame_fillna(c):
    f = mk_frame(c.a, c.lay).fillna(c.e)
    o = Obs([c.a.dtype, c.e])
    o.arr(fcol(f, 0), _fill_expect(c.a, c.e), 'x').arr(fcol(f, 1), _fill_expect(c.a[::-1], c.e), 'x2')
    _untouched_frame(o, f, c.a, skip=('x', 'x2'))
    return o


def _sided_expect(cols, e, axis, leading):
    """cols: list of element lists (one per column); the missing run at the chosen edge of every column (axis 0) / row (axis 1) becomes e"""
    n, m = len(cols[0]), len(cols)
    out = [list(col) for col in cols]
    lines = [[(i, j) for i in range(n)] for j in range(m)] if axis == 0 else [[(i, j) for j in range(m)] for i in range(n)]
    for line in lines:
        for (i, j) in (line if leading else line[::-1]):
            if not is_missing(cols[j][i]):
                break
            out[j][i] = e
    return out


def e_frame_fillna_sided(c):
    # rotate a so that its missing value (position 1 in every sample array) sits at an edge: x ends with it, x2 (reversed) starts with it
    ar = np.roll(c.a, 1)
    cols = [elems(ar), elems(ar[::-1]), elems(Y), elems(Z)]
    o = Obs([c.a.dtype, c.e])
    for name, axis, leading in (('fillna_trailing', 0, False), ('fillna_leading', 0, True), ('fillna_leading', 1, True), ('fillna_trailing', 1, False)):
        f = getattr(mk_frame(ar, c.lay), name)(c.e, axis=axis)
        exp = _sided_expect(cols, c.e, axis, leading)
        for j, cname in enumerate(('x', 'x2', 'y', 'z')):
            o.arr(fcol(f, j), exp[j], f'{name}(axis={axis}):{cname}')
        o.dtype(fcol(f, 2).dtype, Y.dtype, 'column y').dtype(fcol(f, 3).dtype, Z.dtype, 'column z')
    import static_frame as sf
    s = sf.Series(ar, index=IDX)
    o.arr(s.fillna_trailing(c.e).values, _sided_expect([elems(ar)], c.e, 0, False)[0], 'Series.fillna_trailing')
    o.arr(sf.Series(ar[::-1].copy(), index=IDX).fillna_leading(c.e).values, _sided_expect([elems(ar[::-1])], c.e, 0, True)[0], 'Series.fillna_leading')
    return o


def e_index_fillna(c):
    import static_frame as sf
    idx = sf.Index(c.a)
    return Obs([c.a.dtype, c.e]).arr(idx.fillna(c.e).values, _fill_expect(c.a, c.e), 'Index.fillna')


def e_full_for_fill(c):
    from static_frame.core.util import full_for_fill
    o = Obs([c.a.dtype, c.e])
    r = full_for_fill(c.a.dtype, 2, c.e)
    o.arr(r, [c.e, c.e], 'full_for_fill(dtype, 2, e)')
    # callers then store the old values into it (Series.reindex, resize_blocks): it must hold both
    r = full_for_fill(c.a.dtype, (3, 2), c.e)
    r[:, 0] = c.a
    A = elems(c.a)
    o.arr(r, [A[0], c.e, A[1], c.e, A[2], c.e], 'full_for_fill(dtype, (3,2), e) then column 0 = a')
    o.arr(full_for_fill(None, 2, c.e), [c.e, c.e], 'full_for_fill(None, 2, e)')
    return o


def e_concat_fill(c):
    """Frame.from_concat axis 1 with misaligned index: the fill element meets both columns"""
    import static_frame as sf
    f1 = sf.Frame.from_items([('x', c.a)], index=['a', 'b', 'c'])
    f2 = sf.Frame.from_items([('w', Y)], index=['b', 'c', 'd'])
    f = sf.Frame.from_concat((f1, f2), axis=1, fill_value=c.e)
    rows = list(f.index.values)
    A = dict(zip(['a', 'b', 'c'], elems(c.a)))
    W = dict(zip(['b', 'c', 'd'], elems(Y)))
    o = Obs([c.a.dtype, c.e])
    o.arr(fcol(f, 0), [A.get(r, c.e) for r in rows], 'x').arr(fcol(f, 1), [W.get(r, c.e) for r in rows], 'w')
    return o


def e_insert_fill(c):
    import static_frame as sf
    f0 = mk_frame(c.a, c.lay)
    s = sf.Series(Y[:2], index=['c', 'qq'], name='n')
    f = f0.insert_after('x', s, fill_value=c.e)
    o = Obs([Y.dtype, c.e])
    o.arr(fcol(f, 1), [c.e, c.e, Y[0]], 'inserted column n')
    for j, (name, src) in {0: ('x', c.a), 2: ('x2', c.a[::-1]), 3: ('y', Y), 4: ('z', Z)}.items():
        col = fcol(f, j)
        o.dtype(col.dtype, src.dtype, f'column {name}').arr(col, elems(src), f'column {name}')
    return o


ELEMENT_OPS = {
    'Series.reindex(fill_value)': (e_series_reindex, False, True),     # (function, uses frame layouts, tuple element allowed)
    'Series.shift(fill_value)': (e_series_shift, False, True),
    'Frame.reindex(index, fill_value)': (e_frame_reindex_index, True, True),
    'Frame.reindex(columns, fill_value)': (e_frame_reindex_columns, True, True),
    'Frame.reindex(index, columns, fill_value)': (e_frame_reindex_both, True, True),
    'Frame.shift(rows, fill_value)': (e_frame_shift_rows, True, True),
    'Frame.shift(columns, fill_value)': (e_frame_shift_cols, True, True),
    'Series.assign(element)': (e_series_assign, False, False),
    'Frame.assign.iloc/loc[cell](element)': (e_frame_assign_cell, True, False),
    'Frame.assign[column](element)': (e_frame_assign_column, True, False),
    'Frame.assign.iloc[row](element)': (e_frame_assign_row, True, False),
    'Frame.assign.bloc(element)': (e_frame_assign_bloc, True, False),
    'Series.fillna(element)': (e_series_fillna, False, False),
    'Frame.fillna(element)': (e_frame_fillna, True, False),
    'fillna_leading/trailing(element)': (e_frame_fillna_sided, True, False),
    'Index.fillna(element)': (e_index_fillna, False, False),
    'full_for_fill': (e_full_for_fill, False, True),
    'Frame.from_concat(axis=1, fill_value)': (e_concat_fill, False, True),
    'Frame.insert_after(fill_value)': (e_insert_fill, True, True),
}


# ---------------------------------------------------------------------------------------------
# catalogue: array operations  (ctx: a, b, lay)

def r_series_concat(c):
    import static_frame as sf
    r = sf.Series.from_concat((sf.Series(c.a, index=IDX), sf.Series(c.b, index=['d', 'e', 'f'])))
    return Obs([c.a.dtype, c.b.dtype]).arr(r.values, elems(c.a) + elems(c.b), 'values')


def r_concat_resolved(c):
    from static_frame.core.util import concat_resolved
    o = Obs([c.a.dtype, c.b.dtype])
    o.arr(concat_resolved((c.a, c.b)), elems(c.a) + elems(c.b), 'concat_resolved 1d')
    a2, b2 = c.a.reshape(3, 1), c.b.reshape(3, 1)
    A, B = elems(c.a), elems(c.b)
    o.arr(concat_resolved((a2, b2), axis=1), [A[0], B[0], A[1], B[1], A[2], B[2]], 'concat_resolved 2d axis 1')
    o.arr(concat_resolved((b2, a2, b2), axis=0), B + A + B, 'concat_resolved 2d axis 0')
    return o


def r_resolve_dtype(c):
    from static_frame.core.util import resolve_dtype, resolve_dtype_iter
    o = Obs([c.a.dtype, c.b.dtype])
    R = resolve_dtype(c.a.dtype, c.b.dtype)
    o.arr(c.a.astype(R), elems(c.a), f'a.astype(resolve_dtype(A,B)={R})')
    o.arr(c.b.astype(R), elems(c.b), f'b.astype(resolve_dtype(A,B)={R})')
    R3 = resolve_dtype_iter((c.b.dtype, c.a.dtype, c.b.dtype))
    o.arr(c.a.astype(R3), elems(c.a), f'a.astype(resolve_dtype_iter(B,A,B)={R3})')
    o.arr(c.b.astype(R3), elems(c.b), f'b.astype(resolve_dtype_iter(B,A,B)={R3})')
    return o


def r_frame_concat_rows(c):
    import static_frame as sf
    f1 = sf.Frame.from_items([('x', c.a), ('y', Y)], index=['a', 'b', 'c'])
    f2 = sf.Frame.from_items([('y', Y), ('x', c.b)], index=['d', 'e', 'f'])
    o = Obs([c.a.dtype, c.b.dtype])
    for kw in (dict(), dict(index=sf.IndexAutoFactory, consolidate_blocks=True)):
        f = sf.Frame.from_concat((f1, f2), axis=0, **kw)
        cols = list(f.columns.values)
        o.arr(fcol(f, cols.index('x')), elems(c.a) + elems(c.b), 'x')
        ycol = fcol(f, cols.index('y'))
        o.arr(ycol, elems(Y) + elems(Y), 'y').dtype(ycol.dtype, Y.dtype, 'column y')
    return o


def r_frame_concat_cols(c):
    import static_frame as sf
    f1 = sf.Frame.from_items([('x', c.a), ('y', Y)], index=['a', 'b', 'c'])
    f2 = sf.Frame.from_items([('w', c.b)], index=['a', 'b', 'c'])
    f = sf.Frame.from_concat((f1, f2), axis=1)
    o = Obs([])
    for j, src in enumerate((c.a, Y, c.b)):
        col = fcol(f, j)
        o.dtype(col.dtype, src.dtype, f'column {j}').arr(col, elems(src), f'column {j}')
    # the same columns side by side through the consolidating constructors: adjacent columns may share a block only when their dtypes are the same
    g1 = sf.Frame.from_items([('x', c.a)], index=['a', 'b', 'c'])
    g2 = sf.Frame.from_items([('w', c.b), ('w2', c.b[::-1].copy())], index=['a', 'b', 'c'])
    for tag, g in (('from_concat(consolidate_blocks)', sf.Frame.from_concat((g1, g2), axis=1, consolidate_blocks=True)),
                   ('from_items(consolidate_blocks)', sf.Frame.from_items([('x', c.a), ('w', c.b), ('w2', c.b[::-1].copy())], index=['a', 'b', 'c'], consolidate_blocks=True)),
                   ('consolidate()', sf.Frame.from_concat((g1, g2), axis=1).consolidate[:]() if hasattr(sf.Frame, 'consolidate') else sf.Frame.from_concat((g1, g2), axis=1))):
        for j, src in enumerate((c.a, c.b, c.b[::-1])):
            col = fcol(g, j)
            o.dtype(col.dtype, src.dtype, f'{tag} column {j}').arr(col, elems(src), f'{tag} column {j}')
    return o


def r_series_assign_array(c):
    import static_frame as sf
    A, B = elems(c.a), elems(c.b)
    o = Obs([c.a.dtype, c.b.dtype])
    o.arr(sf.Series(c.a, index=IDX).assign.iloc[[0, 2]](c.b[:2]).values, [B[0], A[1], B[1]], 'iloc[[0,2]](array)')
    o.arr(sf.Series(c.a, index=IDX).assign.loc[['b', 'c']](sf.Series(c.b, index=['c', 'b', 'zz'])).values, [A[0], B[1], B[0]], "loc[['b','c']](Series)")
    return o


def r_series_assign_list(c):
    import static_frame as sf
    A = elems(c.a)
    P = [pyform(x) for x in elems(c.b)]
    o = Obs([c.a.dtype, c.b.dtype], build=[P[:2]])
    o.arr(sf.Series(c.a, index=IDX).assign.iloc[[0, 2]](P[:2]).values, [P[0], A[1], P[1]], 'iloc[[0,2]](list)')
    return o


def r_frame_assign_array(c):
    A, A2, B = elems(c.a), elems(c.a[::-1]), elems(c.b)
    o = Obs([c.a.dtype, c.b.dtype])
    f = mk_frame(c.a, c.lay).assign.iloc[:, 0](c.b)
    o.arr(fcol(f, 0), B, 'iloc[:,0](array):x')
    _untouched_frame(o, f, c.a, skip=('x',))
    f = mk_frame(c.a, c.lay).assign.iloc[0:2, 1](c.b[:2])
    o.arr(fcol(f, 1), [B[0], B[1], A2[2]], 'iloc[0:2,1](array):x2')
    _untouched_frame(o, f, c.a, skip=('x2',))
    f = mk_frame(c.a, c.lay).assign.iloc[1, 0:2](c.b[:2])
    o.arr(fcol(f, 0), [A[0], B[0], A[2]], 'iloc[1,0:2](array):x').arr(fcol(f, 1), [A2[0], B[1], A2[2]], 'iloc[1,0:2](array):x2')
    _untouched_frame(o, f, c.a, skip=('x', 'x2'))
    return o


def r_frame_assign_container(c):
    import static_frame as sf
    A, A2, B = elems(c.a), elems(c.a[::-1]), elems(c.b)
    o = Obs([c.a.dtype, c.b.dtype])
    f = mk_frame(c.a, c.lay).assign.loc[:, 'x2'](sf.Series(c.b, index=['c', 'b', 'a']))
    o.arr(fcol(f, 1), [B[2], B[1], B[0]], "loc[:, 'x2'](Series):x2")
    _untouched_frame(o, f, c.a, skip=('x2',))
    val = sf.Frame.from_items([('x', c.b), ('x2', c.b[::-1])], index=IDX)
    f = mk_frame(c.a, c.lay).assign.loc[['a', 'c'], ['x', 'x2']](val)
    Br = elems(c.b[::-1])
    o.arr(fcol(f, 0), [B[0], A[1], B[2]], "loc[rows, ['x','x2']](Frame):x").arr(fcol(f, 1), [Br[0], A2[1], Br[2]], "loc[rows, ['x','x2']](Frame):x2")
    _untouched_frame(o, f, c.a, skip=('x', 'x2'))
    # value Frame whose columns are separate blocks of different dtypes (first = target dtype, second = other kind),
    # assigned to a subset of the rows: every value block must take part in the dtype of the assigned region
    val = sf.Frame.from_items([('x', c.a), ('x2', c.b)], index=IDX)
    f = mk_frame(c.a, c.lay).assign.loc[['a', 'c'], ['x', 'x2']](val)
    o.arr(fcol(f, 0), [A[0], A[1], A[2]], "loc[rows, ['x','x2']](Frame mixed):x").arr(fcol(f, 1), [B[0], A2[1], B[2]], "loc[rows, ['x','x2']](Frame mixed):x2")
    _untouched_frame(o, f, c.a, skip=('x', 'x2'))
    val = sf.Frame.from_items([('x', c.b), ('x2', c.a)], index=IDX)
    f = mk_frame(c.a, c.lay).assign.iloc[1:, 0:2](val.iloc[1:])
    o.arr(fcol(f, 0), [A[0], B[1], B[2]], "iloc[1:, 0:2](Frame mixed):x").arr(fcol(f, 1), [A2[0], A[1], A[2]], "iloc[1:, 0:2](Frame mixed):x2")
    _untouched_frame(o, f, c.a, skip=('x', 'x2'))
    return o


def r_frame_assign_bloc_array(c):
    import static_frame as sf
    A, B = elems(c.a), elems(c.b)
    src = mk_frame(c.a, c.lay)
    mask = np.zeros((3, 4), dtype=bool)
    mask[0, 0] = mask[2, 0] = mask[1, 3] = True
    key = sf.Frame(mask, index=src.index, columns=src.columns)
    value = np.empty((3, 4), dtype=c.b.dtype)
    for i in range(3):
        for j in range(4):
            value[i, j] = c.b[(i + j) % 3]
    o = Obs([c.a.dtype, c.b.dtype])
    f = src.assign.bloc[key](value)
    o.arr(fcol(f, 0), [B[0], A[1], B[2]], 'bloc(array):x').arr(fcol(f, 3), [Z[0], B[(1 + 3) % 3], Z[2]], 'bloc(array):z')
    _untouched_frame(o, f, c.a, skip=('x', 'z'))
    # by Frame: only the labels the value holds are assigned
    val = sf.Frame.from_items([('x', c.b)], index=['c', 'a', 'q'])
    f = src.assign.bloc[key](val)
    o.arr(fcol(f, 0), [B[1], A[1], B[0]], 'bloc(Frame):x')
    _untouched_frame(o, f, c.a, skip=('x',))
    return o


def r_roll(c):
    """roll moves cells without merging: every column keeps its exact dtype"""
    import static_frame as sf
    o = Obs([])
    f0 = frame_from([c.a, c.b, Y], ((1, True), (1, True), (1, True)), index=IDX, column_labels=['x', 'w', 'y'])
    f = f0.roll(1, 0)
    for j, src in enumerate((c.a, c.b, Y)):
        col = fcol(f, j)
        E = elems(src)
        o.dtype(col.dtype, src.dtype, f'roll(1,0) column {j}').arr(col, [E[2], E[0], E[1]], f'roll(1,0) column {j}')
    f = f0.roll(0, 1)
    for j, src in enumerate((Y, c.a, c.b)):
        col = fcol(f, j)
        o.dtype(col.dtype, src.dtype, f'roll(0,1) column {j}').arr(col, elems(src), f'roll(0,1) column {j}')
    s = sf.Series(c.a, index=IDX).roll(-1)
    A = elems(c.a)
    o.dtype(s.values.dtype, c.a.dtype, 'Series.roll').arr(s.values, [A[1], A[2], A[0]], 'Series.roll(-1)')
    return o


def r_fillna_directional(c):
    """forward / backward fill along axis 1 carries a value of one column into the next (different dtype)"""
    o = Obs([c.a.dtype, c.b.dtype, Y.dtype])
    # the neighbours are rotated so that their missing rows do not coincide with those of the receiving column (a value IS carried into a missing cell)
    arrays = [np.roll(c.b, 1), c.a, Y, c.a[::-1].copy(), np.roll(c.b, 2)]
    cols = [elems(x) for x in arrays]
    lay = tuple((1, True) for _ in arrays)
    f0 = frame_from(arrays, lay, index=IDX, column_labels=['w', 'x', 'y', 'x2', 'w2'])
    for name, forward in (('fillna_forward', True), ('fillna_backward', False)):
        f = getattr(f0, name)(axis=1)
        exp = [list(col) for col in cols]
        for i in range(3):
            last, have = None, False
            order = range(len(cols)) if forward else range(len(cols) - 1, -1, -1)
            for j in order:
                if is_missing(cols[j][i]):
                    if have:
                        exp[j][i] = last
                else:
                    last, have = cols[j][i], True
        for j in range(len(cols)):
            o.arr(fcol(f, j), exp[j], f'{name}(axis=1) column {j}')
        ycol = fcol(f, 2)
        o.dtype(ycol.dtype, Y.dtype, 'column y')
    return o


def r_series_fillna_series(c):
    import static_frame as sf
    B = elems(c.b)
    o = Obs([c.a.dtype, c.b.dtype], lenient=True)
    m = with_missing(c.a)
    r = sf.Series(c.a, index=IDX_OBJ).fillna(sf.Series(c.b, index=IDX_OBJ))
    return o.arr(r.values, [B[i] if m[i] else x for i, x in enumerate(elems(c.a))], 'Series.fillna(Series)')


def r_frame_fillna_frame(c):
    import static_frame as sf
    B = elems(c.b)
    o = Obs([c.a.dtype, c.b.dtype], lenient=True)
    m = with_missing(c.a)
    labels = ['x', 2, 'y', 'z']      # object-dtype labels on both axes
    filler = sf.Frame.from_items([('x', c.b), (2, c.b)], index=IDX_OBJ)
    f = frame_from([c.a, c.a[::-1].copy(), Y, Z], LAYOUTS[c.lay], index=list(IDX_OBJ), column_labels=labels).fillna(filler)
    m2 = m[::-1]
    o.arr(fcol(f, 0), [B[i] if m[i] else x for i, x in enumerate(elems(c.a))], 'Frame.fillna(Frame):x')
    o.arr(fcol(f, 1), [B[i] if m2[i] else x for i, x in enumerate(elems(c.a[::-1]))], 'Frame.fillna(Frame):x2')
    _untouched_frame(o, f, c.a, skip=('x', 'x2'))
    return o


def r_series_overlay(c):
    import static_frame as sf
    B = elems(c.b)
    m = with_missing(c.a)
    o = Obs([c.a.dtype, c.b.dtype], lenient=True)
    r = sf.Series.from_overlay((sf.Series(c.a, index=IDX_OBJ), sf.Series(c.b, index=IDX_OBJ)))
    return o.arr(r.values, [B[i] if m[i] else x for i, x in enumerate(elems(c.a))], 'Series.from_overlay')


def r_frame_overlay(c):
    import static_frame as sf
    B = elems(c.b)
    m = with_missing(c.a)
    o = Obs([c.a.dtype, c.b.dtype], lenient=True)
    f1 = sf.Frame.from_items([('x', c.a), ('y', Y)], index=IDX)
    f2 = sf.Frame.from_items([('x', c.b), ('y', Y)], index=IDX)
    f = sf.Frame.from_overlay((f1, f2))
    cols = list(f.columns.values)
    rows = list(f.index.values)
    perm = [IDX.index(r) for r in rows]
    exp = [B[i] if m[i] else x for i, x in enumerate(elems(c.a))]
    o.arr(fcol(f, cols.index('x')), [exp[i] for i in perm], 'Frame.from_overlay:x')
    ycol = fcol(f, cols.index('y'))
    o.arr(ycol, [Y[i] for i in perm], 'Frame.from_overlay:y').dtype(ycol.dtype, Y.dtype, 'column y')
    # the earlier frame holds w, x in ONE consolidated block; the later frame supplies kind A for w and kind B for x
    g1 = sf.Frame.from_items([('w', c.a), ('x', c.a)], index=IDX, consolidate_blocks=True)
    g2 = sf.Frame.from_items([('w', c.a), ('x', c.b)], index=IDX)
    g = sf.Frame.from_overlay((g1, g2))
    gcols = list(g.columns.values)
    gperm = [IDX.index(r) for r in g.index.values]
    o.arr(fcol(g, gcols.index('x')), [exp[i] for i in gperm], 'Frame.from_overlay(2D block):x')
    A = elems(c.a)
    o.arr(fcol(g, gcols.index('w')), [A[i] for i in gperm], 'Frame.from_overlay(2D block):w')
    return o


def r_series_overlay_misaligned(c):
    """first container lacks a label: the library fills with its own NA and then overlays b"""
    import static_frame as sf
    A, B = elems(c.a), elems(c.b)
    m = with_missing(c.a)
    o = Obs([c.a.dtype, c.b.dtype, np.dtype(np.float64)], lenient=True)     # float64: the library aligns with its own NaN fill
    r = sf.Series.from_overlay((sf.Series(c.a, index=['a', 1, 'c']), sf.Series(c.b, index=[1, 'c', 'd'])))
    labels = list(r.index.values)
    exp = {'a': A[0], 1: B[0] if m[1] else A[1], 'c': B[1] if m[2] else A[2], 'd': B[2]}
    return o.arr(r.values, [exp[l] for l in labels], 'Series.from_overlay misaligned')


def r_frame_overlay_misaligned(c):
    import static_frame as sf
    A, B = elems(c.a), elems(c.b)
    m = with_missing(c.a)
    o = Obs([c.a.dtype, c.b.dtype, np.dtype(np.float64)], lenient=True)     # float64: the library aligns with its own NaN fill
    f1 = sf.Frame.from_items([('x', c.a)], index=['a', 'b', 'c'])
    f2 = sf.Frame.from_items([('x', c.b)], index=['b', 'c', 'd'])
    f = sf.Frame.from_overlay((f1, f2))
    labels = list(f.index.values)
    exp = {'a': A[0], 'b': B[0] if m[1] else A[1], 'c': B[1] if m[2] else A[2], 'd': B[2]}
    return o.arr(fcol(f, 0), [exp[l] for l in labels], 'Frame.from_overlay misaligned:x')


def r_series_insert(c):
    import static_frame as sf
    A, B = elems(c.a), elems(c.b)
    o = Obs([c.a.dtype, c.b.dtype])
    s = sf.Series(c.a, index=IDX)
    o.arr(s.insert_before('b', sf.Series(c.b, index=['d', 'e', 'f'])).values, [A[0]] + B + [A[1], A[2]], 'insert_before')
    o.arr(s.insert_after('c', sf.Series(c.b[:1], index=['d'])).values, A + [B[0]], 'insert_after')
    return o


def r_frame_insert(c):
    import static_frame as sf
    f0 = mk_frame(c.a, c.lay)
    o = Obs([])
    f = f0.insert_before('x2', sf.Series(c.b, index=IDX, name='n'))
    for j, (name, src) in enumerate([('x', c.a), ('n', c.b), ('x2', c.a[::-1]), ('y', Y), ('z', Z)]):
        col = fcol(f, j)
        o.dtype(col.dtype, src.dtype, f'column {name}').arr(col, elems(src), f'column {name}')
    f = f0.insert_after('z', sf.Frame.from_items([('n1', c.b), ('n2', c.b[::-1])], index=IDX))
    for j, (name, src) in enumerate([('x', c.a), ('x2', c.a[::-1]), ('y', Y), ('z', Z), ('n1', c.b), ('n2', c.b[::-1])]):
        col = fcol(f, j)
        o.dtype(col.dtype, src.dtype, f'column {name}').arr(col, elems(src), f'column {name}')
    return o


def _mixed(c, form):
    A, B = elems(c.a), elems(c.b)
    if form == 'py':
        A, B = [pyform(x) for x in A], [pyform(x) for x in B]
    return [A[0], B[0], A[2], B[2], B[1], A[1]]


def r_from_records(c):
    import static_frame as sf
    o = None
    for form in ('py', 'np'):
        mix = _mixed(c, form)
        if o is None:
            o = Obs([c.a.dtype, c.b.dtype], build=[_mixed(c, 'py'), _mixed(c, 'np')])
        f = sf.Frame.from_records([(x, 'k', i) for i, x in enumerate(mix)], columns=['m', 's', 'i'])
        o.arr(fcol(f, 0), mix, f'from_records({form}):m').arr(fcol(f, 1), ['k'] * 6, 's').arr(fcol(f, 2), list(range(6)), 'i')
        f = sf.Frame.from_records([[x, x] for x in mix])
        o.arr(fcol(f, 0), mix, f'from_records(lists,{form}):0').arr(fcol(f, 1), mix, f'from_records(lists,{form}):1')
    return o


def r_from_dict_records(c):
    import static_frame as sf
    o = None
    for form in ('py', 'np'):
        mix = _mixed(c, form)
        if o is None:
            o = Obs([c.a.dtype, c.b.dtype], build=[_mixed(c, 'py'), _mixed(c, 'np')])
        f = sf.Frame.from_dict_records([dict(m=x, s='k') for x in mix])
        o.arr(fcol(f, 0), mix, f'from_dict_records({form}):m').arr(fcol(f, 1), ['k'] * 6, 's')
    return o


def r_from_items(c):
    import static_frame as sf
    o = None
    for form in ('py', 'np'):
        mix = _mixed(c, form)
        if o is None:
            o = Obs([c.a.dtype, c.b.dtype], build=[_mixed(c, 'py'), _mixed(c, 'np')])
        f = sf.Frame.from_items([('m', mix), ('t', tuple(mix[::-1]))])
        o.arr(fcol(f, 0), mix, f'from_items(list,{form})').arr(fcol(f, 1), mix[::-1], f'from_items(tuple,{form})')
    # arrays keep their exact dtype
    f = sf.Frame.from_items([('x', c.a), ('w', c.b)])
    for j, src in enumerate((c.a, c.b)):
        col = fcol(f, j)
        o.dtype(col.dtype, src.dtype, f'from_items(arrays) column {j}').arr(col, elems(src), f'from_items(arrays) column {j}')
    s = sf.Series(_mixed(c, 'py'))
    o.arr(s.values, _mixed(c, 'py'), 'Series(list)')
    return o


def r_row_consolidation(c):
    import static_frame as sf
    A, B = elems(c.a), elems(c.b)
    o = Obs([c.a.dtype, c.b.dtype])
    cols = [c.a, c.b, c.a[::-1].copy()]
    A2 = elems(cols[2])
    flat = [x for i in range(3) for x in (A[i], B[i], A2[i])]
    for lay in (((1, True), (1, True), (1, True)), ((1, False), (1, True), (1, False))):
        f = frame_from(cols, lay, index=IDX, column_labels=['x', 'w', 'x2'])
        o.arr(f.values, flat, '.values')
        for i, row in enumerate(f.iter_array(axis=1)):
            o.arr(row, [A[i], B[i], A2[i]], f'iter_array(axis=1) row {i}')
        o.arr(f.iloc[1].values, [A[1], B[1], A2[1]], 'iloc[1] (row Series)')
        o.arr(f.loc['c', ['w', 'x']].values, [B[2], A[2]], "loc['c', ['w','x']]")
        for i, s in enumerate(f.iter_series(axis=1)):
            o.arr(s.values, [A[i], B[i], A2[i]], f'iter_series(axis=1) row {i}')
        t = f.T
        for i in range(3):
            o.arr(fcol(t, i), [A[i], B[i], A2[i]], f'.T column {i}')
        o.arr(f.iloc[1:, :2].values, [A[1], B[1], A[2], B[2]], 'iloc[1:, :2].values')
    return o


def r_iterable_to_array(c):
    from static_frame.core.util import iterable_to_array_1d, prepare_iter_for_array, iterable_to_array_2d
    o = None
    for form in ('py', 'np'):
        mix = _mixed(c, form)
        if o is None:
            o = Obs([c.a.dtype, c.b.dtype], build=[_mixed(c, 'py'), _mixed(c, 'np')])
        arr, _ = iterable_to_array_1d(mix)
        o.arr(arr, mix, f'iterable_to_array_1d(list,{form})')
        arr, _ = iterable_to_array_1d(x for x in mix)
        o.arr(arr, mix, f'iterable_to_array_1d(generator,{form})')
        dtype, has_tuple, values = prepare_iter_for_array(iter(mix))
        if not has_tuple:
            o.arr(np.array(values, dtype=dtype), mix, f'np.array(values, dtype=prepare_iter_for_array(...),{form})')
        arr = iterable_to_array_2d([mix[:2], mix[2:4], mix[4:]])
        o.arr(arr, mix, f'iterable_to_array_2d({form})')
    return o


ARRAY_OPS = {
    'Series.from_concat': (r_series_concat, False),
    'concat_resolved': (r_concat_resolved, False),
    'resolve_dtype': (r_resolve_dtype, False),
    'Frame.from_concat(axis=0)': (r_frame_concat_rows, False),
    'Frame.from_concat(axis=1)': (r_frame_concat_cols, False),
    'Series.assign(array/Series)': (r_series_assign_array, False),
    'Series.assign(list)': (r_series_assign_list, False),
    'Frame.assign.iloc(array)': (r_frame_assign_array, True),
    'Frame.assign.loc(Series/Frame)': (r_frame_assign_container, True),
    'Frame.assign.bloc(array/Frame)': (r_frame_assign_bloc_array, True),
    'Frame.roll/Series.roll': (r_roll, False),
    'Frame.fillna_forward/backward(axis=1)': (r_fillna_directional, False),
    'Series.fillna(Series)': (r_series_fillna_series, False),
    'Frame.fillna(Frame)': (r_frame_fillna_frame, True),
    'Series.from_overlay': (r_series_overlay, False),
    'Frame.from_overlay': (r_frame_overlay, False),
    'Series.from_overlay(misaligned)': (r_series_overlay_misaligned, False),
    'Frame.from_overlay(misaligned)': (r_frame_overlay_misaligned, False),
    'Series.insert_before/after': (r_series_insert, False),
    'Frame.insert_before/after': (r_frame_insert, True),
    'Frame.from_records': (r_from_records, False),
    'Frame.from_dict_records': (r_from_dict_records, False),
    'Frame.from_items/Series(list)': (r_from_items, False),
    'row consolidation (.values, iter_array(1), row Series, .T)': (r_row_consolidation, False),
    'iterable_to_array_1d/2d, prepare_iter_for_array': (r_iterable_to_array, False),
}
BUILD_OPS = {'Frame.from_records', 'Frame.from_dict_records', 'Frame.from_items/Series(list)', 'Series.assign(list)',
             'iterable_to_array_1d/2d, prepare_iter_for_array'}


# ---------------------------------------------------------------------------------------------
# evaluation of one case

class Ctx:
    __slots__ = ('a', 'b', 'e', 'lay')

    def __init__(self, a, b=None, e=None, lay=0):
        self.a, self.b, self.e, self.lay = a, b, e, lay


def _has(cls, items):
    return any(normalize(x)[0] == cls for x in items)


def _site(opname):
    return opname.split('(')[0].strip().replace(' ', '-').replace(',', '')


def attribute(opname, cls, obs, stored, supplied):
    """failure key with root attribution: a loss that a shared mechanism reproduces on the same inputs is keyed to the mechanism"""
    site = _site(opname)
    cs = normalize(supplied)[0]
    if cs in ('datetime', 'timedelta') and cls in (f'{cs}-cast-to-int', f'{cs}-cast-to-none'):
        # ndarray.astype(object) turns datetime64[ns]/timedelta64[ns] into ints and NaT into None: every site that widens via astype(object)
        try:
            probe = np.array([supplied]).astype(object)[0]
            if compare(probe, supplied) == cls:
                return 'C07:astype(object):' + ('NaT-becomes-None' if cls.endswith('none') else 'datetime64/timedelta64[ns]-becomes-int')
        except Exception:
            pass
    if opname in BUILD_OPS and obs.build:
        # is a loss of the same supplied class already present in the array that iterable_to_array_1d builds from these elements
        # (prepare_iter_for_array only separates str from non-str; everything else is left to np.array auto-detection)?
        try:
            from static_frame.core.util import iterable_to_array_1d
            for elements in obs.build:
                arr, _ = iterable_to_array_1d(list(elements))
                for g, s_ in zip(list(arr), elements):
                    pc = compare(g, s_)
                    if pc is not None and normalize(s_)[0] == cs:
                        return f'C07:prepare_iter_for_array:{_build_group(pc, cs, normalize(g)[0], s_, elements)}'
        except Exception:
            pass
    if cls == 'int-to-float-inexact':
        # does the shared dtype resolution itself promote this integer to an inexact dtype against one of the dtypes present?
        try:
            from static_frame.core.util import resolve_dtype, dtype_from_element
            ds = dtype_from_element(supplied)
            cands = [m if isinstance(m, np.dtype) else dtype_from_element(m) for m in obs.merged] + [Z.dtype]
            if obs.build:   # the dtype of the array built from the supplied list takes part in the merge
                from static_frame.core.util import iterable_to_array_1d
                cands.extend(iterable_to_array_1d(list(el))[0].dtype for el in obs.build)
            if ds.kind in 'iu' and any(resolve_dtype(ds, d).kind in 'fc' for d in cands if d.kind in 'iufc'):
                return 'C07:resolve_dtype:numeric-promotion-to-float-loses-int-above-2**53'
        except Exception:
            pass
    return f'C07:{site}:{cls}'


def _build_group(cls, supplied_class, stored_class, lost, elements):
    """defect classes of array building from mixed Python/NumPy scalars, grouped by the missing guard"""
    if stored_class in ('bytes', 'str'):
        return f'non-{stored_class}-element-cast-to-{stored_class}'
    if cls == 'int-to-float-inexact':
        form = 'python-int' if type(lost) is int else 'numpy-int'
        company = 'with-inexact' if any(normalize(x)[0] in ('float', 'complex') for x in elements) else 'among-ints-only'
        return f'big-{form}-{company}-cast-to-float'
    if supplied_class == 'bool':
        return 'bool-cast-to-number'
    if 'datetime' in (supplied_class, stored_class) or 'timedelta' in (supplied_class, stored_class):
        return 'datetime-timedelta-number-mix-cast'
    return cls


def judge(opname, obs):
    """-> list of (key, what)"""
    out = []
    supplied_all = [s for _, s, _ in obs.cells]
    if _has('str', supplied_all) and _has('bytes', supplied_all):
        return None     # str x bytes: outside the claim
    for stored, supplied, where in obs.cells:
        cls = compare(stored, supplied, obs.lenient)
        if cls is not None:
            out.append((attribute(opname, cls, obs, stored, supplied), f'{opname}: {where} holds {stored!r} ({type(stored).__name__}) but {supplied!r} ({type(supplied).__name__}) was supplied [{cls}]'))
    for actual, expected, where in obs.dtypes:
        if actual != expected:
            out.append((f'C07:{_site(opname)}:untouched-column-dtype-changed', f'{opname}: {where} has dtype {actual}, the operation does not address it and the input dtype is {expected}'))
    return out


def run_case(kind, opname, A, B, etag, lay, K):
    """-> ('refused', exc) | ('skipped', None) | ('ok', failures)"""
    a = K[A]
    if kind == 'element':
        fn = ELEMENT_OPS[opname][0]
        e = dict(elements_of(B, K))[etag]
        ctx = Ctx(a, None, e, lay)
        if (A in STR_KINDS and normalize(e)[0] == 'bytes') or (A in BYTES_KINDS and normalize(e)[0] == 'str'):
            return 'skipped', None
    else:
        fn = ARRAY_OPS[opname][0]
        ctx = Ctx(a, K[B], None, lay)
        if (A in STR_KINDS and B in BYTES_KINDS) or (A in BYTES_KINDS and B in STR_KINDS):
            return 'skipped', None
    try:
        obs = fn(ctx)
    except Exception as e:
        import traceback
        tb = traceback.extract_tb(e.__traceback__)
        if tb and tb[-1].filename.endswith('c07_coercion.py'):
            raise           # raised by the harness itself, not by the package: checker fault
        return 'refused', e   # the operation under test refused the combination: nothing stored, not judged
    res = judge(opname, obs)
    if res is None:
        return 'skipped', None
    return 'ok', res


def cases(tier):
    """(kind, opname, A, B): the element tags / layouts are iterated inside"""
    for opname in ELEMENT_OPS:
        for A in KIND_NAMES:
            for B in KIND_NAMES + list(ELEMENT_ONLY):
                yield ('element', opname, A, B)
    for opname in ARRAY_OPS:
        for A in KIND_NAMES:
            for B in KIND_NAMES:
                yield ('array', opname, A, B)


def run(repo, task):
    import static_frame as sf
    tier = task.get('tier', 'quick')
    KS = {'base': _kinds()} if tier == 'quick' else {'base': _kinds(), 'alt': _kinds(alt=True)}
    rep = Report('C07-coercion', task,
                 rule='one evaluation = one catalogue operation on one ordered pair (array kind A, array kind B | element of kind B incl. Python and NumPy scalar forms) '
                      'under one block layout of the host frame; every result cell is compared with the element supplied for it (type class, exact int value, str length) '
                      'and every unaddressed column with its input dtype; Frame values whose columns are separate blocks of different dtypes assigned to part of the rows of one block; non-trivial when the operation accepted the combination (did not raise) and A != B',
                 bound=f'{len(KIND_NAMES)} dtype kinds {KIND_NAMES} + element-only kinds {list(ELEMENT_ONLY)}; {len(ELEMENT_OPS)} element operations, {len(ARRAY_OPS)} array operations; '
                       '3-element arrays (' + ('1 value set' if tier == 'quick' else '2 value sets') + '), 4-column host frame in 2 layouts (all 1-D blocks | 2-D block [x,x2] + 2-D y + 1-D z); str x bytes pairs excluded')
    refused = {}
    for (vs, kind, opname, A, B) in rep.shard((vs, *c) for c in cases(tier) for vs in KS):
        K = KS[vs]
        try:
            uses_lay = (ELEMENT_OPS[opname][1] if kind == 'element' else ARRAY_OPS[opname][1])
            lays = (0, 1) if uses_lay else (0,)
            if kind == 'element':
                tags = [t for t, _ in elements_of(B, K)]
                if B == 'tuple' and not ELEMENT_OPS[opname][2]:
                    tags = []
                if B in BYTES_KINDS and not ELEMENT_OPS[opname][2]:
                    # a bytes element is an iterable for assign/fillna interfaces: only single-element interfaces take it as an element
                    tags = []
            else:
                tags = [None]
            for etag in tags:
                for lay in lays:
                    status, res = run_case(kind, opname, A, B, etag, lay, K)
                    if status == 'skipped':
                        continue
                    if status == 'refused':
                        rep.count()
                        k = f'{opname}: {type(res).__name__}'
                        refused[k] = refused.get(k, 0) + 1
                        continue
                    rep.count(distinct_key=(vs, opname, A, B, etag, lay) if A != B else None,
                              sample=dict(op=opname, A=A, B=B, element=etag, layout=lay, values=vs) if A != B else None)
                    for key, what in res:
                        rep.fail(key, what + f'  (A={A}, B={B}, element={etag}, layout={lay}, values={vs})', dict(kind=kind, op=opname, A=A, B=B, etag=etag, lay=lay, key=key, vs=vs))
        except Exception:
            rep.error(f'C07 harness {kind} {opname} A={A} B={B}')
    out = rep.done()
    out['notes'] = dict(refused=refused)
    return out


def replay(repo, rp):
    K = _kinds(alt=rp.get('vs') == 'alt')
    try:
        status, res = run_case(rp['kind'], rp['op'], rp['A'], rp['B'], rp.get('etag'), rp.get('lay', 0), K)
    except Exception as e:
        return dict(outcome='error', detail=repr(e))
    if status != 'ok':
        return dict(outcome='pass', note=f'{status}: {res!r}')
    hits = [r for r in res if r[0] == rp.get('key')] or res
    if hits and (rp.get('key') is None or any(r[0] == rp['key'] for r in res)):
        return dict(outcome='fail', key=hits[0][0], what=hits[0][1])
    return dict(outcome='pass', other=[r[0] for r in res])
