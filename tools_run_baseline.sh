#!/bin/sh
# runs the repository's pinned suite (guard off) and compares with BASELINE.json stable_pass
OUT=${1:-/var/tmp/bl/run.junit.xml}
cd /repo && env -u STATIC_FRAME_VERIF /venv/bin/python -m pytest -ra -q -p no:cacheprovider --timeout=900 --continue-on-collection-errors --junitxml=$OUT >/var/tmp/bl/pytest.log 2>&1
/venv/bin/python - "$OUT" <<'PY'
import sys, json, xml.etree.ElementTree as ET
b = json.load(open('/root/.vp/BASELINE.json'))
want = set(b['stable_pass'])
got = {}
for tc in ET.parse(sys.argv[1]).getroot().iter('testcase'):
    name = f"{tc.get('classname')}::{tc.get('name')}"
    bad = any(ch.tag in ('failure', 'error', 'skipped') for ch in tc)
    got[name] = not bad
missing = sorted(n for n in want if not got.get(n, False))
print('stable_pass', len(want), 'now passing', sum(got.get(n, False) for n in want), 'regressed', len(missing), 'total passing', sum(got.values()), 'of', len(got))
for n in missing[:30]:
    print('  REGRESSED', n)
sys.exit(1 if missing else 0)
PY
