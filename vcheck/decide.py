"""Turn task reports into a verdict, VIOLATION / KNOWN-FINDING lines, replay files and evidence."""
from __future__ import annotations
import json
import os
import re

HERE = os.path.dirname(os.path.dirname(os.path.abspath(__file__)))


def _norm(name):
    return re.sub(r'#p\d+', '', re.sub(r'@L\d+', '', name))


def load_baseline():
    p = os.path.join(HERE, 'baseline_proved.json')
    return json.load(open(p)) if os.path.exists(p) else {}


def known_match(known, key):
    for k in known:
        if k.get('status', 'open') != 'open':
            continue
        if k['match'] in key or re.search(k['match'], key):
            return k
    return None


def decide(pid, tier, seed, reports, known, wall, write_replay, verbose=False):
    baseline = load_baseline()
    violations = []          # dict(key, what, replay_path, nofail)
    undecided = []
    faults = []
    ob_total = ob_proved = 0
    fn_rows = []
    ob_rows = []
    trusted = set()
    assumptions = set()
    solver_ms = 0.0
    backends = {}
    evaluations = distinct = 0
    rules = []
    samples = []
    bounded_rows = []
    known_hit = {}

    def violation(key, what, payload, nofail=False):
        k = known_match(known, key)
        if k is not None:
            known_hit.setdefault(k['match'], []).append(key)
            return
        if any(v['key'] == key for v in violations):
            return            # same defect class already reported (e.g. by another shard)
        path = write_replay(pid, key, payload)
        violations.append(dict(key=key, what=what, replay=path, nofail=nofail))

    for r in reports:
        kind = r.get('kind')
        if r.get('status') == 'checker-fault':
            faults.append(r)
            continue
        if kind == 'D':
            fn = r['fn']
            row = dict(function=fn, sha256=r.get('sha256'), lines=r.get('lines'), stmts_modelled=r.get('stmts_modelled'),
                       stmts_total=r.get('stmts_total'), paths=r.get('paths'), status=r['status'], canary=r.get('canary'))
            row['assumed_contracts_used'] = r.get('assumed_used', [])
            row['proved_callee_contracts_used'] = r.get('callee_contracts_used', [])
            trusted.update(r.get('assumed_used', []))
            fn_rows.append(row)
            if r['status'] != 'ok':
                undecided.append(dict(fn=fn, why=f"{r['status']}: {r.get('detail', '')}"))
            elif r.get('canary') != 'ok':
                faults.append(dict(key=fn, detail=f'canary {r.get("canary")}: contract is vacuous'))
            for u in r.get('unsupported', []):
                undecided.append(dict(fn=fn, why=f"unsupported construct at L{u['lineno']}: {u['why']}"))
            if r['status'] == 'ok' and not r['obligations'] and not r.get('unsupported'):
                faults.append(dict(key=fn, detail='zero obligations generated'))
            for ob in r.get('obligations', []):
                ob_total += 1
                solver_ms += ob.get('ms', 0)
                backends[ob['backend']] = backends.get(ob['backend'], 0) + 1
                ob_rows.append(dict(fn=fn, name=ob['name'], kind='D:' + ob['kind'], verdict=ob['verdict'], backend=ob['backend'],
                                    ms=round(ob.get('ms', 0), 1), spec=ob.get('note', '')[:160]))
                if ob['verdict'] == 'proved':
                    ob_proved += 1
                    continue
                key = f"D:{r['key']}:{_norm(ob['name'])}"
                payload = dict(property=pid, kind='D', function=fn, contract_key=r['key'], obligation=ob['name'], spec=ob.get('note'),
                               source_sha256=r.get('sha256'), verifier=dict(verdict=ob['verdict'], backend=ob['backend'], model=ob.get('model'),
                                                                            reason=ob.get('reason')), replay=ob.get('replay'))
                rp = ob.get('replay') or {}
                if ob['verdict'] == 'refuted' and rp.get('outcome') == 'fail':
                    violation(key, f"{fn}: {ob['name']} refuted; real function fails on {rp.get('inputs')}: {rp.get('failed')}", payload)
                    continue
                if ob['verdict'] == 'undecided' and rp.get('outcome') == 'fail':
                    violation(key, f"{fn}: {ob['name']} left open by the solver ({ob.get('reason')}); the contract's witness inputs fail on the real function: {rp.get('inputs')}: {rp.get('failed')}", payload)
                    continue
                st = r.get('standin')
                if st and st.get('failures'):
                    f0 = st['failures'][0]
                    payload['standin_failure'] = f0
                    payload['model_inputs'] = f0.get('inputs')
                    violation(key, f"{fn}: {ob['name']} {ob['verdict']}; bounded search of the real function fails on {f0.get('inputs')}", payload)
                    continue
                if ob['verdict'] == 'refuted' and not ob.get('tainted') and r['key'] in baseline:
                    violation(key, f"{fn}: {ob['name']} was discharged on the pinned tree and is now refuted (model {ob.get('model')}); no failing input found", payload, nofail=True)
                    continue
                undecided.append(dict(fn=fn, why=f"{ob['name']}: {ob['verdict']} ({ob.get('reason', 'model did not replay')})"))
            st = r.get('standin')
            if st:
                evaluations += st.get('evaluations', 0)
                distinct += st.get('distinct', 0)
                bounded_rows.append(dict(name=f'enum:{r["key"]}', evaluations=st.get('evaluations', 0), bound=st.get('bound')))
                if st.get('samples'):
                    samples.extend(st['samples'][:2])
                # a stand-in failure with every obligation proved = spec/engine disagreement with the real code
                if st.get('failures') and all(o['verdict'] == 'proved' for o in r.get('obligations', [])) and r['status'] == 'ok' and not r.get('unsupported'):
                    f0 = st['failures'][0]
                    violation(f"B:enum:{r['key']}", f"{fn}: run-time contract fails on {f0.get('inputs')}: {f0.get('failed')}",
                              dict(property=pid, kind='B-enum', contract_key=r['key'], failure=f0))
                elif st.get('failures') and (r['status'] != 'ok' or r.get('unsupported')) and not any(o['verdict'] != 'proved' for o in r.get('obligations', [])):
                    # the source is outside what the contract can be checked against (undecided), but the concrete contract fails on the real function: a violation all the same
                    f0 = st['failures'][0]
                    violation(f"B:enum:{r['key']}", f"{fn}: contract undecided on this source; its witness / enumerated inputs fail on the real function: {f0.get('inputs')}: {f0.get('failed')}",
                              dict(property=pid, kind='B-enum', contract_key=r['key'], failure=f0))
        elif kind in ('G', 'B'):
            if r.get('status') == 'undecided':
                undecided.append(dict(fn=r['name'], why=r.get('detail', '')))
            for it in r.get('items', []):
                ob_total += 1
                backends[it.get('backend', 'z3')] = backends.get(it.get('backend', 'z3'), 0) + 1
                solver_ms += it.get('ms', 0)
                ob_rows.append(dict(fn=it.get('fn', r['name']), name=it['name'], kind=kind + ':' + it.get('kind', ''), verdict=it['verdict'],
                                    backend=it.get('backend', 'z3'), ms=round(it.get('ms', 0), 1), spec=it.get('note', '')[:160]))
                if it['verdict'] == 'proved':
                    ob_proved += 1
                elif it['verdict'] == 'undecided':
                    undecided.append(dict(fn=it.get('fn', r['name']), why=f"{it['name']}: undecided ({it.get('note', '')})"))
            evaluations += r.get('evaluations', 0)
            distinct += r.get('distinct', 0)
            if r.get('rule'):
                rules.append(f"{r['name']}: {r['rule']}")
            samples.extend(r.get('samples', [])[:3])
            if kind == 'B':
                bounded_rows.append(dict(name=r['name'], evaluations=r.get('evaluations', 0), distinct=r.get('distinct', 0), bound=r.get('bound')))
            for f in r.get('failures', []):
                violation(f['key'], f['what'], dict(property=pid, kind=kind, task=r['name'], failure=f), nofail=f.get('nofail', False))
            trusted.update(r.get('trusted', []))
            assumptions.update(r.get('assumptions', []))

    for k in known:
        if k.get('status', 'open') == 'open':
            seen = known_hit.get(k['match'])
            print(f"KNOWN-FINDING: property={pid} {k['what']}" + ('' if seen else ' [not observed in this run]'))
    for v in violations:
        print(f"VIOLATION property={pid} replay={v['replay']}" + (' no-failing-input-found' if v['nofail'] else ''))
        print(f"  {v['what']}")
    for f in faults:
        print(f"CHECKER-FAULT: {f.get('key') or f.get('name')}: {str(f.get('detail', ''))[-1500:]}")
    if undecided:
        print(f"UNDECIDED: {len(undecided)} obligation(s) not discharged on this run (not counted as proved; the bounded stand-ins decide; listed in the evidence file)")
        for u in (undecided if verbose else undecided[:3]):
            print(f"  undecided: {u['fn']}: {u['why'][:240]}")

    from specs import assumed
    trusted_base = sorted(trusted | set(assumed.TRUSTED_ALWAYS))
    all_proved = ob_total > 0 and ob_proved == ob_total and not undecided and not faults
    # the evidence level follows the level claimed in MANIFEST.json whenever this run supports it
    claimed = None
    try:
        for chk in json.load(open(os.path.join(HERE, 'MANIFEST.json')))['checks']:
            if chk['property_id'] == pid:
                claimed = chk['level_claimed']['category']
    except Exception:
        pass
    if claimed == 'exploration' and evaluations > 0 and not faults and not undecided:
        level = 'exploration'
    elif claimed in (None, 'proof') and all_proved:
        level = 'proof'
    elif ob_total == 0 and evaluations > 0 and not faults:
        level = 'exploration'
    else:
        level = 'other'
    cov = dict(
        obligations=ob_total, discharged=ob_proved,
        checker_cmd=f'./check {pid} --tier {tier}',
        trusted_base=trusted_base,
        functions_under_contract=fn_rows,
        obligation_list=ob_rows if len(ob_rows) <= 400 else ob_rows[:400] + [dict(note=f'{len(ob_rows) - 400} more not listed')],
        backends=backends, solver_time_s=round(solver_ms / 1000, 3),
        undecided=undecided[:100],
        bounded=bounded_rows,
        evaluations=max(evaluations, 0), distinct_nontrivial=distinct,
        rule='; '.join(dict.fromkeys(rules)) if rules else 'deductive obligations only; bounded stand-ins listed under "bounded"',
        samples=(samples[:8] or [r for r in ob_rows[:3]]),
        explanation=('every obligation generated from the current source was discharged; bounded stand-ins (listed under "bounded") passed and are not counted as proof' if all_proved else
                     ('no deductive obligation is attached to this property: decided by bounded run-time contract stand-ins only (bounded, not proof)' if ob_total == 0 else
                      f'{ob_proved}/{ob_total} obligations discharged; undecided ones fall to the bounded stand-ins (bounded, not proof)')),
        known_findings=[dict(match=k['match'], what=k['what'], observed=bool(known_hit.get(k['match']))) for k in known if k.get('status', 'open') == 'open'],
    )
    ev = dict(property_id=pid, tier=tier, seed=seed, level=level, coverage=cov,
              assumptions=sorted(assumptions | set(assumed.ASSUMPTIONS_ALWAYS)), wall_s=round(wall, 2), violations=len(violations))
    os.makedirs(os.path.join(HERE, 'evidence'), exist_ok=True)
    with open(os.path.join(HERE, 'evidence', f'{pid}.json'), 'w') as f:
        json.dump(ev, f, indent=1, default=repr)
    print(f"{pid} [{tier}] obligations={ob_total} discharged={ob_proved} undecided={len(undecided)} bounded_evaluations={evaluations} "
          f"violations={len(violations)} faults={len(faults)} wall={wall:.1f}s level={level}")
    if violations:
        return 1
    if faults:
        return 3
    return 0
