"""Registry of generated-obligation tasks (G) and bounded stand-ins (B) per property."""
from __future__ import annotations
import importlib
import json
import os

HERE = os.path.dirname(os.path.dirname(os.path.abspath(__file__)))

# name -> 'module:function'
TASKS = {}
# property -> list of (name, kind, tiers, shards)
PLAN = {}


def register(pid, name, kind, target, shards=1, tiers=('quick', 'thorough')):
    TASKS[name] = target
    PLAN.setdefault(pid, []).append((name, kind, tiers, shards))


def resolve(name):
    mod, fn = TASKS[name].split(':')
    return getattr(importlib.import_module(mod), fn)


def tasks_for(pid, tier, seed):
    out = []
    for name, kind, tiers, shards in PLAN.get(pid, []):
        if tier not in tiers:
            continue
        n = shards if isinstance(shards, int) else shards.get(tier, 1)
        for s in range(n):
            out.append(dict(kind=kind, name=name, pid=pid, tier=tier, seed=seed, shard=s, nshards=n))
    return out


def do_replay(pid, path, repo):
    """re-run a recorded counterexample against the real code; exit 1 if it still fails"""
    import sys
    if repo != '/repo':
        sys.path.insert(0, repo)
    d = json.load(open(path if os.path.isabs(path) else os.path.join(HERE, path)))
    if d.get('kind') == 'D':
        from specs import load_all
        from pyvc.replay import replay_model, run_contract
        from pyvc.cspec import decode
        C, _ = load_all()
        c = C[d['contract_key']]
        model = d.get('verifier', {}).get('model')
        if d.get('standin_failure'):
            from bounded import enums
            r = enums.replay(d['contract_key'], d['standin_failure'])
        elif model:
            r = replay_model(c, model)
        else:
            print(f"replay: obligation {d['obligation']} of {d['function']} has no concrete model; verifier output: {d.get('verifier')}")
            return 1
        print('replay:', json.dumps(r, default=repr)[:2000])
        return 1 if r.get('outcome') == 'fail' else 0
    if d.get('kind') in ('G', 'B', 'B-enum'):
        f = d.get('failure', {})
        if d.get('kind') == 'B-enum':
            from bounded import enums
            r = enums.replay(d['contract_key'], f)
            print('replay:', json.dumps(r, default=repr)[:2000])
            return 1 if r.get('outcome') == 'fail' else 0
        rp = f.get('replay')
        if rp and rp.get('task'):
            fn = resolve(rp['task'] + ':replay') if (rp['task'] + ':replay') in TASKS else None
            mod, _ = TASKS[d['task']].split(':')
            m = importlib.import_module(mod)
            if hasattr(m, 'replay'):
                r = m.replay(repo, rp)
                print('replay:', json.dumps(r, default=repr)[:2000])
                return 1 if r.get('outcome') == 'fail' else 0
        print('replay: recorded failure:', json.dumps(f, default=repr)[:2000])
        return 1
    print('replay: unknown record kind')
    return 3


# ---- registrations (kept at the bottom; each module is imported lazily in the worker) ------------------
from . import registrations  # noqa: E402,F401
