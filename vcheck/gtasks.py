"""G tasks: mechanically generated site obligations (pyvc.typestate) as check tasks."""
from __future__ import annotations
import json
import os
import time

HERE = os.path.dirname(os.path.dirname(os.path.abspath(__file__)))


def _baseline():
    p = os.path.join(HERE, 'baseline_proved.json')
    return set(json.load(open(p)).get('G_sites', [])) if os.path.exists(p) else set()


def run_g1g2(repo, task):
    from pyvc.typestate import analyse
    t0 = time.time()
    kinds = task.get('kinds') or ('G1', 'G2')
    sites = [s for s in analyse(repo) if s.kind in kinds]
    base = _baseline()
    items, failures = [], []
    for s in sites:
        items.append(dict(name=s.sid, fn=f'{s.module}.py:{s.fn}', kind=s.kind, verdict=s.verdict, backend='typestate',
                          ms=0.0, note=f'L{s.lineno} tags={s.tags} {s.note}'))
        if s.verdict == 'refuted':
            failures.append(dict(key=f'G:{s.sid}',
                                 what=f'{s.kind} site obligation refuted at {s.module}.py:{s.lineno} in {s.fn}: {s.what} reaches the site with state {s.tags} '
                                      f'({"a writeable / caller-owned array would be stored or returned as container data" if s.kind == "G1" else "an in-place write reaches an array this activation did not allocate"})'
                                      + ('' if s.sid in base else ' [site not in the pinned baseline]'),
                                 nofail=True,
                                 replay=dict(site=s.sid, lineno=s.lineno, tags=s.tags, analysis='pyvc.typestate', note=s.note)))
    missing = sorted(b for b in base if b.split(':')[0] in kinds and b not in {s.sid for s in sites})
    rep = dict(name=task['name'], status='ok', items=items, failures=failures, evaluations=0, distinct=0,
               rule='', samples=[dict(site=i['name'], verdict=i['verdict'], state=i['note']) for i in items[:3]],
               trusted=['call tables of pyvc/typestate.py (NP_FRESH, METH_FRESH, NP_VIEW: assumed NumPy allocation/view contracts)',
                        'rely: arrays read from container fields (.values, ._labels, ._positions, ._blocks elements) are read-only (the invariant G1 establishes)'],
               assumptions=['aliasing: a state is attached to a name; freezing through one alias is not propagated to other aliases (conservative for G1)'],
               wall_s=round(time.time() - t0, 2))
    if missing:
        rep['status'] = 'undecided'
        rep['detail'] = f'{len(missing)} baseline sites no longer exist (spec drift: source refactored), e.g. {missing[:3]}'
    if not items:
        rep['status'] = 'checker-fault'
        rep['detail'] = 'zero G sites generated'
    return rep


def run_sort_consts(repo, task):
    """C12 constant / forwarding obligations read off the AST (a changed default or a dropped `kind=` is a changed obligation)."""
    import ast
    t0 = time.time()
    items, failures = [], []

    def ob(name, ok, note, fn):
        items.append(dict(name=name, fn=fn, kind='G5', verdict='proved' if ok else 'refuted', backend='ast', ms=0.0, note=note))
        if not ok:
            failures.append(dict(key=f'G:{name}', what=f'{name}: {note}', nofail=True, replay=dict(site=name, note=note)))
    util = ast.parse(open(os.path.join(repo, 'static_frame/core/util.py')).read())
    val = None
    for n in util.body:
        if isinstance(n, ast.Assign) and any(isinstance(t, ast.Name) and t.id == 'DEFAULT_SORT_KIND' for t in n.targets):
            val = n.value.value if isinstance(n.value, ast.Constant) else ast.unparse(n.value)
    ob('util.DEFAULT_SORT_KIND-is-stable', val in ('mergesort', 'stable'), f'DEFAULT_SORT_KIND = {val!r}; the property rests on a stable default sort', 'util.py')
    for mod in ('frame', 'series', 'index', 'index_hierarchy'):
        tree = ast.parse(open(os.path.join(repo, f'static_frame/core/{mod}.py')).read())
        for cls in [n for n in tree.body if isinstance(n, ast.ClassDef)]:
            for fn in [n for n in cls.body if isinstance(n, ast.FunctionDef) and n.name in ('sort_index', 'sort_columns', 'sort_values', 'sort')]:
                args = fn.args.args + fn.args.kwonlyargs
                defaults = dict(zip([a.arg for a in fn.args.args][len(fn.args.args) - len(fn.args.defaults):], fn.args.defaults))
                defaults.update({a.arg: d for a, d in zip(fn.args.kwonlyargs, fn.args.kw_defaults) if d is not None})
                q = f'{mod}.py:{cls.name}.{fn.name}'
                if 'kind' not in [a.arg for a in args]:
                    continue
                d = defaults.get('kind')
                ob(f'{q}:kind-default', d is not None and ast.unparse(d) == 'DEFAULT_SORT_KIND', f'default of kind is {ast.unparse(d) if d is not None else None}', q)
                fwd = any(isinstance(c, ast.Call) and (any(k.arg == 'kind' and ast.unparse(k.value) == 'kind' for k in c.keywords)
                                                       or any(isinstance(a, ast.Name) and a.id == 'kind' for a in c.args)) for c in ast.walk(fn))
                ob(f'{q}:kind-forwarded', fwd, 'the kind argument reaches a sort primitive / sort_index_for_order', q)
                asc = [a.arg for a in args]
                if 'ascending' in asc:
                    fwd_a = any(isinstance(c, ast.Name) and c.id == 'ascending' and isinstance(c.ctx, ast.Load) for c in ast.walk(fn))
                    ob(f'{q}:ascending-used', fwd_a, 'the ascending argument is read', q)
    rep = dict(name=task['name'], status='ok' if items else 'checker-fault', items=items, failures=failures, evaluations=0, distinct=0, rule='',
               samples=[dict(obligation=i['name'], verdict=i['verdict']) for i in items[:3]], trusted=[], assumptions=[], wall_s=round(time.time() - t0, 2))
    return rep


CROSSCHECK_KEYS = ['slice_to_inclusive_slice', 'TypeBlocks._cols_to_slice', 'slice_to_ascending_slice']      # leaf functions only: with callee contracts the engine result is not functional


def run_crosscheck(repo, task):
    """encoder cross-check of pyvc against CPython on the pure integer/slice targets (checker self-validation)"""
    import itertools
    from specs import load_all
    from pyvc.crosscheck import crosscheck
    from bounded import enums
    t0 = time.time()
    C, R = load_all()
    keys = CROSSCHECK_KEYS
    key = keys[task.get('shard', 0) % len(keys)]
    gen, _ = enums.ENUMS[key]
    seed = task.get('seed', 0)
    limit = 25 if task.get('tier') == 'quick' else 150
    allin = list(gen())
    step = max(1, len(allin) // limit)
    sample = allin[(seed % step)::step]
    r = crosscheck(repo, key, C[key], C, R, iter(sample), limit=limit)
    items = [dict(name=f'crosscheck:{key}', fn=key, kind='X', verdict='proved' if not r['problems'] and r['samples'] else 'undecided', backend='z3', ms=r['wall_s'] * 1000,
                  note=f"{r['agree']}/{r['samples']} sampled executions: engine result proved equal to CPython's")]
    rep = dict(name=task['name'], status='ok', items=items, failures=[], evaluations=r['samples'], distinct=r['agree'],
               rule='encoder cross-check: sampled inputs from the per-function enumerator; non-trivial = CPython and engine both produced a result',
               samples=[dict(function=key, agree=r['agree'], samples=r['samples'])], trusted=[], assumptions=[], wall_s=round(time.time() - t0, 2))
    if r['problems']:
        rep['status'] = 'checker-fault'
        rep['detail'] = f'pyvc disagrees with CPython on {key}: {r["problems"][:2]}'
    return rep


def run_g3(repo, task):
    """G3 ownership obligations (pyvc.ownership): an argument handed over as owned is never an alias of a grow-able member of the receiver"""
    from pyvc.ownership import analyse
    t0 = time.time()
    sites = analyse(repo)
    items, failures = [], []
    for s in sites:
        items.append(dict(name=s['sid'], fn=s['sid'].split(':')[2], kind='G3', verdict=s['verdict'], backend='path-enumeration', ms=0.0, note=f"L{s['lineno']} {s['note']}"))
        if s['verdict'] == 'refuted':
            failures.append(dict(key=s['sid'], what=f"G3 ownership obligation refuted at L{s['lineno']}: {s['note']}", nofail=True,
                                 replay=dict(site=s['sid'], lineno=s['lineno'], note=s['note'], analysis='pyvc.ownership')))
    return dict(name=task['name'], status='ok' if items else 'checker-fault', items=items, failures=failures, evaluations=0, distinct=0, rule='',
                samples=[dict(site=i['name'], verdict=i['verdict']) for i in items[:3]],
                trusted=['pyvc/ownership.py tracks aliases of self._columns / self._blocks through local names only (not through containers or helper calls)'],
                assumptions=[], wall_s=round(time.time() - t0, 2))


def run_store_coherence(repo, task):
    """C17 site obligations read off the AST (G6): every public reading method (`read`, `read_many`, `labels`) of every Store class is
    wrapped by `store_coherent_non_write`, every `write` by `store_coherent_write`; the non-write wrapper calls
    `self._mtime_coherent()` before the wrapped function, the write wrapper calls `self._mtime_update()` after it;
    `Store.__init__` records the modification time.  (`_mtime_coherent` itself is under a proved contract.)"""
    import ast
    t0 = time.time()
    items, failures = [], []

    def ob(name, ok, note, fn):
        items.append(dict(name=name, fn=fn, kind='G6', verdict='proved' if ok else 'refuted', backend='ast', ms=0.0, note=note))
        if not ok:
            failures.append(dict(key=f'G:{name}', what=f'{name}: {note}', nofail=True, replay=dict(site=name, note=note)))
    core = os.path.join(repo, 'static_frame/core')
    store = ast.parse(open(os.path.join(core, 'store.py')).read())
    fns = {n.name: n for n in store.body if isinstance(n, ast.FunctionDef)}

    def wrapper_calls(deco, method, before):
        d = fns.get(deco)
        if d is None:
            return False, f'{deco} not found'
        w = next((n for n in d.body if isinstance(n, ast.FunctionDef)), None)
        if w is None:
            return False, 'no wrapper function'
        pos_m = pos_f = None
        for i, s in enumerate(w.body):
            for c in ast.walk(s):
                if isinstance(c, ast.Call):
                    if isinstance(c.func, ast.Attribute) and c.func.attr == method and isinstance(c.func.value, ast.Name) and c.func.value.id == 'self' and pos_m is None:
                        pos_m = i
                    if isinstance(c.func, ast.Name) and c.func.id == 'f' and pos_f is None:
                        pos_f = i
        ok = pos_m is not None and pos_f is not None and (pos_m < pos_f if before else pos_m > pos_f)
        # the call must be unconditional: a top-level expression statement of the wrapper
        ok = ok and isinstance(w.body[pos_m], ast.Expr)
        return ok, f'self.{method}() at statement {pos_m}, f(...) at statement {pos_f} of the wrapper'
    ok, note = wrapper_calls('store_coherent_non_write', '_mtime_coherent', True)
    ob('store.py:store_coherent_non_write:checks-before-reading', ok, note, 'store.py:store_coherent_non_write')
    ok, note = wrapper_calls('store_coherent_write', '_mtime_update', False)
    ob('store.py:store_coherent_write:records-after-writing', ok, note, 'store.py:store_coherent_write')
    scls = next((n for n in store.body if isinstance(n, ast.ClassDef) and n.name == 'Store'), None)
    init = next((n for n in scls.body if isinstance(n, ast.FunctionDef) and n.name == '__init__'), None) if scls else None
    ok = init is not None and any(isinstance(c, ast.Call) and isinstance(c.func, ast.Attribute) and c.func.attr == '_mtime_update' for c in ast.walk(init))
    ob('store.py:Store.__init__:records-mtime', ok, 'Store.__init__ calls self._mtime_update()', 'store.py:Store.__init__')
    n_methods = 0
    for mod in sorted(f for f in os.listdir(core) if f.startswith('store') and f.endswith('.py') and f not in ('store_filter.py', 'store_client_mixin.py')):
        tree = ast.parse(open(os.path.join(core, mod)).read())
        for cls in [n for n in ast.walk(tree) if isinstance(n, ast.ClassDef)]:
            for fn in [n for n in cls.body if isinstance(n, ast.FunctionDef)]:
                want = {'read': 'store_coherent_non_write', 'read_many': 'store_coherent_non_write', 'labels': 'store_coherent_non_write',
                        'write': 'store_coherent_write'}.get(fn.name)
                if want is None:
                    continue
                if any(isinstance(s, ast.Raise) for s in fn.body[-1:]) and len([s for s in fn.body if not (isinstance(s, ast.Expr) and isinstance(s.value, ast.Constant))]) == 1:
                    continue      # abstract stub: raises NotImplementedError
                decos = [ast.unparse(d) for d in fn.decorator_list]
                n_methods += 1
                ob(f'{mod}:{cls.name}.{fn.name}:wrapped-by-{want}', want in decos, f'decorators: {decos}', f'{mod}:{cls.name}.{fn.name}')
    rep = dict(name=task['name'], status='ok' if n_methods >= 8 else 'checker-fault', items=items, failures=failures, evaluations=0, distinct=0, rule='',
               samples=[dict(obligation=i['name'], verdict=i['verdict']) for i in items[:3]], trusted=[], assumptions=[], wall_s=round(time.time() - t0, 2))
    if n_methods < 8:
        rep['detail'] = f'only {n_methods} store methods found: the generator no longer matches the source layout'
    return rep


def run_forwarding(repo, task):
    """C13 site obligations read off the AST (G7): the public window / group iterator interfaces are thin forwarding layers in front of
    the contracted generator (`axis_window_items`).  For every forwarding function found: each of its parameters reaches the delegate call as
    `name=name` (or positionally under its own name) -- a dropped or crossed argument is a refuted obligation naming the parameter."""
    import ast
    t0 = time.time()
    items, failures = [], []

    def ob(name, ok, note, fn):
        items.append(dict(name=name, fn=fn, kind='G7', verdict='proved' if ok else 'refuted', backend='ast', ms=0.0, note=note))
        if not ok:
            failures.append(dict(key=f'G:{name}', what=f'{name}: {note}', nofail=True, replay=dict(site=name, note=note)))
    core = os.path.join(repo, 'static_frame/core')

    def check(mod, cls_name, fn_name, delegate, skip=('self',)):
        tree = ast.parse(open(os.path.join(core, mod)).read())
        found = 0
        for cls in [n for n in ast.walk(tree) if isinstance(n, ast.ClassDef) and (cls_name is None or n.name == cls_name)]:
            for fn in [n for n in cls.body if isinstance(n, ast.FunctionDef) and n.name == fn_name]:
                calls = [c for c in ast.walk(fn) if isinstance(c, ast.Call) and (
                    (isinstance(c.func, ast.Attribute) and c.func.attr == delegate) or (isinstance(c.func, ast.Name) and c.func.id == delegate))]
                if len(calls) != 1:
                    continue
                c = calls[0]
                found += 1
                q = f'{mod}:{cls.name}.{fn.name}'
                params = [a.arg for a in fn.args.args + fn.args.kwonlyargs if a.arg not in skip]
                for p in params:
                    kw = [k for k in c.keywords if k.arg == p]
                    ok = (len(kw) == 1 and isinstance(kw[0].value, ast.Name) and kw[0].value.id == p) or \
                         (not kw and any(isinstance(a, ast.Name) and a.id == p for a in c.args))
                    what = ast.unparse(kw[0].value) if kw else 'not passed'
                    ob(f'{q}:forwards:{p}', ok, f'{delegate}(... {p}={what} ...)', q)
                # and nothing is passed under a different parameter's name
                for k in c.keywords:
                    if k.arg in params and isinstance(k.value, ast.Name) and k.value.id in params and k.value.id != k.arg:
                        ob(f'{q}:crossed:{k.arg}', False, f'{delegate}(... {k.arg}={k.value.id} ...)', q)
        return found
    n = 0
    if task.get('name', '').startswith('C15-arg'):
        # position / label of the extreme value: skipna and axis reach the arg-reduction primitive, and min goes to argmin, max to argmax
        for mod, cls, dim in (('frame.py', 'Frame', '2d'), ('series.py', 'Series', '1d')):
            for m in ('iloc_min', 'loc_min', 'iloc_max', 'loc_max'):
                n += check(mod, cls, m, f"arg{m.split('_')[1]}_{dim}")
        rep = dict(name=task['name'], status='ok' if n == 8 else 'checker-fault', items=items, failures=failures, evaluations=0, distinct=0, rule='',
                   samples=[dict(obligation=i['name'], verdict=i['verdict']) for i in items[:3]], trusted=[], assumptions=[], wall_s=round(time.time() - t0, 2))
        if n != 8:
            rep['detail'] = f'{n} of 8 arg-reduction methods call their primitive exactly once: the generator no longer matches the source layout'
        return rep
    if task.get('name', '').startswith('C19-reduction'):
        # a Batch hands every argument of a reduction on to its Frames under the argument's own name; so does a Frame to its block store
        for mod, cls, m, d in (('batch.py', 'Batch', '_ufunc_axis_skipna', '_apply_attr'), ('batch.py', 'Batch', '_ufunc_shape_skipna', '_apply_attr'),
                               ('frame.py', 'Frame', '_ufunc_axis_skipna', 'ufunc_axis_skipna')):      # (a Series is one vector: composable / dtypes / size_one_unity have no use there)
            n += check(mod, cls, m, d)
        rep = dict(name=task['name'], status='ok' if n == 3 else 'checker-fault', items=items, failures=failures, evaluations=0, distinct=0, rule='',
                   samples=[dict(obligation=i['name'], verdict=i['verdict']) for i in items[:3]], trusted=[], assumptions=[], wall_s=round(time.time() - t0, 2))
        if n != 3:
            rep['detail'] = f'{n} of 3 reduction forwarding methods found with exactly one delegate call'
        return rep
    n += check('node_iter.py', 'IterNodeWindow', '__call__', 'get_delegate')
    n += check('node_iter.py', 'IterNodeGroup', '__call__', 'get_delegate')
    n += check('node_iter.py', 'IterNodeGroupAxis', '__call__', 'get_delegate')
    n += check('node_iter.py', 'IterNodeAxis', '__call__', 'get_delegate')
    n += check('series.py', 'Series', '_axis_window_items', 'axis_window_items')
    n += check('frame.py', 'Frame', '_axis_window_items', 'axis_window_items')
    n += check('quilt.py', 'Quilt', '_axis_window_items', 'axis_window_items')
    rep = dict(name=task['name'], status='ok' if n >= 4 else 'checker-fault', items=items, failures=failures, evaluations=0, distinct=0, rule='',
               samples=[dict(obligation=i['name'], verdict=i['verdict']) for i in items[:3]], trusted=[], assumptions=[], wall_s=round(time.time() - t0, 2))
    if n < 4:
        rep['detail'] = f'only {n} forwarding functions found: the generator no longer matches the source layout'
    return rep


def run_operator_wiring(repo, task):
    """C06 site obligations read off the AST (G8): every operator dunder of ContainerOperand hands `operator_mod.__X__` of ITS OWN name to
    `_ufunc_binary_operator` together with `other`; every reflected dunder `__rX__` builds `lambda rhs, lhs: operator_mod.__X__(lhs, rhs)`
    (operands swapped, same X) -- so that  other op container  computes op(other_cell, container_cell)."""
    import ast
    t0 = time.time()
    items, failures = [], []

    def ob(name, ok, note, fn, undecided=False):
        v = 'proved' if ok else ('undecided' if undecided else 'refuted')
        items.append(dict(name=name, fn=fn, kind='G8', verdict=v, backend='ast', ms=0.0, note=note))
        if v == 'refuted':
            failures.append(dict(key=f'G:{name}', what=f'{name}: {note}', nofail=True, replay=dict(site=name, note=note)))
    tree = ast.parse(open(os.path.join(repo, 'static_frame/core/container.py')).read())
    cls = next((n for n in tree.body if isinstance(n, ast.ClassDef) and n.name == 'ContainerOperand'), None)
    BIN = ['add', 'sub', 'mul', 'matmul', 'truediv', 'floordiv', 'mod', 'pow', 'lshift', 'rshift', 'and', 'xor', 'or', 'lt', 'le', 'eq', 'ne', 'gt', 'ge']
    REFL = ['add', 'sub', 'mul', 'matmul', 'truediv', 'floordiv']
    fns = {n.name: n for n in cls.body if isinstance(n, ast.FunctionDef)} if cls else {}
    n = 0
    for x in BIN:
        fn = fns.get(f'__{x}__')
        if fn is None:
            continue
        n += 1
        q = f'container.py:ContainerOperand.__{x}__'
        calls = [c for c in ast.walk(fn) if isinstance(c, ast.Call) and isinstance(c.func, ast.Attribute) and c.func.attr == '_ufunc_binary_operator']
        ok = len(calls) == 1
        opv = oth = None
        if ok:
            kws = {k.arg: ast.unparse(k.value) for k in calls[0].keywords}
            opv, oth = kws.get('operator'), kws.get('other')
        ob(f'{q}:operator', ok and opv == f'operator_mod.__{x}__', f'operator={opv}', q)
        ob(f'{q}:other', ok and oth == 'other', f'other={oth}', q)
    for x in REFL:
        fn = fns.get(f'__r{x}__')
        if fn is None:
            continue
        n += 1
        q = f'container.py:ContainerOperand.__r{x}__'
        lam = next((s.value for s in fn.body if isinstance(s, ast.Assign) and isinstance(s.value, ast.Lambda)), None)
        ok, note = False, 'no lambda'
        if lam is not None:
            a = [p.arg for p in lam.args.args]
            b = lam.body
            ok = (len(a) == 2 and isinstance(b, ast.Call) and ast.unparse(b.func) == f'operator_mod.__{x}__' and len(b.args) == 2
                  and all(isinstance(v, ast.Name) for v in b.args) and [v.id for v in b.args] == [a[1], a[0]])
            note = ast.unparse(lam)
        ob(f'{q}:swapped-operands', ok, note, q, undecided=lam is None)      # written in another form than a two-parameter lambda: not recognised, not an alarm
        calls = [c for c in ast.walk(fn) if isinstance(c, ast.Call) and isinstance(c.func, ast.Attribute) and c.func.attr == '_ufunc_binary_operator']
        kws = {k.arg: ast.unparse(k.value) for k in calls[0].keywords} if len(calls) == 1 else {}
        ob(f'{q}:passes-lambda-and-other', kws.get('operator') == 'operator' and kws.get('other') == 'other', f'{kws}', q)
    rep = dict(name=task['name'], status='ok' if n >= 20 else 'checker-fault', items=items, failures=failures, evaluations=0, distinct=0, rule='',
               samples=[dict(obligation=i['name'], verdict=i['verdict']) for i in items[:3]], trusted=[], assumptions=[], wall_s=round(time.time() - t0, 2))
    if n < 20:
        rep['detail'] = f'only {n} operator dunders found in ContainerOperand'
    return rep


def run_loc_is_iloc_sites(repo, task):
    """C02 site obligations read off the AST (G9): the `loc_is_iloc` shortcut ("labels equal positions, no map is built") is sound only when the
    labels ARE the positions 0..n-1.  At every call site anywhere in static_frame/core passing `loc_is_iloc=<not False>`: the labels passed are
    `PositionsAllocator.get(...)`.  At every assignment to a variable `loc_is_iloc`: it is copied from an Index whose own map is absent
    (`labels._map is None`) and the labels and positions of that same Index are the ones taken.  A new site is a new obligation."""
    import ast
    t0 = time.time()
    items, failures = [], []

    def ob(name, ok, note, fn):
        items.append(dict(name=name, fn=fn, kind='G9', verdict='proved' if ok else 'refuted', backend='ast', ms=0.0, note=note))
        if not ok:
            failures.append(dict(key=f'G:{name}', what=f'{name}: {note}', nofail=True, replay=dict(site=name, note=note)))
    core = os.path.join(repo, 'static_frame/core')
    n_calls = n_assign = 0
    for mod in sorted(f for f in os.listdir(core) if f.endswith('.py')):
        tree = ast.parse(open(os.path.join(core, mod)).read())
        funcs = [n for n in ast.walk(tree) if isinstance(n, (ast.FunctionDef, ast.AsyncFunctionDef))]
        for fn in funcs:
            own = [n for n in ast.walk(fn)]
            inner = {id(x) for f2 in own if isinstance(f2, (ast.FunctionDef, ast.AsyncFunctionDef)) and f2 is not fn for x in ast.walk(f2)}
            k_call = k_asg = 0
            for node in own:
                if id(node) in inner:
                    continue
                if isinstance(node, ast.Call):
                    kw = [k for k in node.keywords if k.arg == 'loc_is_iloc']
                    if not kw or (isinstance(kw[0].value, ast.Constant) and kw[0].value.value is False):
                        continue
                    n_calls += 1
                    q = f'{mod}:{fn.name}'
                    lab = next((k.value for k in node.keywords if k.arg == 'labels'), node.args[0] if node.args else None)
                    def is_alloc(e):
                        return isinstance(e, ast.Call) and ast.unparse(e.func) == 'PositionsAllocator.get'
                    ok = lab is not None and is_alloc(lab)
                    note = f'labels={ast.unparse(lab) if lab is not None else None}, loc_is_iloc={ast.unparse(kw[0].value)}'
                    if not ok and isinstance(lab, ast.Name):
                        asg = [a for a in own if isinstance(a, ast.Assign) and id(a) not in inner and any(isinstance(t, ast.Name) and t.id == lab.id for t in a.targets)]
                        ok = len(asg) == 1 and is_alloc(asg[0].value) and asg[0].lineno < node.lineno
                        note += f'; {lab.id} = {ast.unparse(asg[0].value) if asg else "?"} ({len(asg)} assignment(s))'
                    ob(f'{q}:call-with-loc_is_iloc#{k_call}', ok, note, q)
                    k_call += 1
                if isinstance(node, ast.Assign) and any(isinstance(t, ast.Name) and t.id == 'loc_is_iloc' for t in node.targets):
                    n_assign += 1
                    q = f'{mod}:{fn.name}'
                    src = None
                    v = node.value
                    if isinstance(v, ast.Compare) and len(v.ops) == 1 and isinstance(v.ops[0], ast.Is) and isinstance(v.comparators[0], ast.Constant) \
                            and v.comparators[0].value is None and isinstance(v.left, ast.Attribute) and v.left.attr == '_map' and isinstance(v.left.value, ast.Name):
                        src = v.left.value.id
                    ok = src is not None
                    # the labels (and positions) taken are those of the same source index, in the same block
                    sib = None
                    for parent in own:
                        for fld in ('body', 'orelse'):
                            blk = getattr(parent, fld, None)
                            if isinstance(blk, list) and node in blk:
                                sib = blk
                    texts = [ast.unparse(s_) for s_ in (sib or [])]
                    ok = ok and f'labels = {src}._labels' in texts and f'positions = {src}._positions' in texts
                    ob(f'{q}:assign-loc_is_iloc#{k_asg}', ok, f'loc_is_iloc = {ast.unparse(v)}; block: {texts}', q)
                    k_asg += 1
    good = n_calls >= 1 and n_assign >= 1
    rep = dict(name=task['name'], status='ok' if good else 'checker-fault', items=items, failures=failures, evaluations=0, distinct=0, rule='',
               samples=[dict(obligation=i['name'], verdict=i['verdict']) for i in items[:3]], trusted=[], assumptions=[], wall_s=round(time.time() - t0, 2))
    if not good:
        rep['detail'] = f'{n_calls} call sites / {n_assign} assignments of loc_is_iloc found: the generator no longer matches the source layout'
    return rep


def run_store_config_sites(repo, task):
    """C17 / C18 site obligations read off the AST (G10): in every Store class, the DEFAULT config of the config map is used only for what
    is label independent by design (label encode/decode, worker counts, chunk sizes); every other option is taken from `config_map[<label>]`
    where <label> is the loop variable of the enclosing `for` over the labels / items.  A new use of `config_map.default.<other>` or of
    `config_map[<something else>]` is a refuted obligation."""
    import ast
    t0 = time.time()
    items, failures = [], []

    def ob(name, ok, note, fn, undecided=False):
        v = 'proved' if ok else ('undecided' if undecided else 'refuted')
        items.append(dict(name=name, fn=fn, kind='G10', verdict=v, backend='ast', ms=0.0, note=note))
        if v == 'refuted':
            failures.append(dict(key=f'G:{name}', what=f'{name}: {note}', nofail=True, replay=dict(site=name, note=note)))
    ALLOWED_DEFAULT = {'label_encode', 'label_decode', 'label_encoder', 'label_decoder', 'read_max_workers', 'read_chunksize', 'write_max_workers', 'write_chunksize'}
    # the options that describe ONE Frame (taken from the parameters of StoreConfig.__init__ at run time) and the conversion that carries them
    per_label = {'to_store_config_he'}
    st_tree = ast.parse(open(os.path.join(repo, 'static_frame/core/store.py')).read())
    for cls_ in [c for c in ast.walk(st_tree) if isinstance(c, ast.ClassDef) and c.name == 'StoreConfig']:
        for f_ in [f for f in cls_.body if isinstance(f, ast.FunctionDef) and f.name == '__init__']:
            per_label |= {a.arg for a in f_.args.args + f_.args.kwonlyargs if a.arg != 'self'} - ALLOWED_DEFAULT
    core = os.path.join(repo, 'static_frame/core')
    n = 0
    for mod in sorted(f for f in os.listdir(core) if f.startswith('store_') and f.endswith('.py') and f not in ('store_filter.py', 'store_client_mixin.py')):
        tree = ast.parse(open(os.path.join(core, mod)).read())
        for cls in [c for c in ast.walk(tree) if isinstance(c, ast.ClassDef)]:
            for fn in [f for f in cls.body if isinstance(f, ast.FunctionDef) and f.name in ('read', 'read_many', 'write', 'labels')]:
                q = f'{mod}:{cls.name}.{fn.name}'
                # loop variables naming a label: targets of `for label in labels` / `for label, frame in items`
                label_vars = set()
                for loop in [l for l in ast.walk(fn) if isinstance(l, ast.For)]:
                    t = loop.target
                    first = t.elts[0] if isinstance(t, ast.Tuple) and t.elts else t
                    if isinstance(first, ast.Name) and isinstance(loop.iter, ast.Name) and loop.iter.id in ('labels', 'items'):
                        label_vars.add(first.id)
                kd = ks = 0
                for node in ast.walk(fn):
                    if isinstance(node, ast.Attribute) and isinstance(node.value, ast.Attribute) and node.value.attr == 'default' \
                            and isinstance(node.value.value, ast.Name) and node.value.value.id == 'config_map':
                        n += 1
                        # a per-Frame option read from the default config: refuted; an attribute this generator does not know: undecided (not an alarm)
                        ob(f'{q}:default-use#{kd}:{node.attr}', node.attr in ALLOWED_DEFAULT, f'config_map.default.{node.attr} (label independent options: {sorted(ALLOWED_DEFAULT)})', q,
                           undecided=node.attr not in per_label)
                        kd += 1
                    if isinstance(node, ast.Subscript) and isinstance(node.value, ast.Name) and node.value.id == 'config_map':
                        n += 1
                        key = node.slice
                        # the key is the label variable of an enclosing loop (whatever the iterable is called)
                        encl = set()
                        for loop in [l for l in ast.walk(fn) if isinstance(l, ast.For)]:
                            if any(x is node for x in ast.walk(loop)):
                                t_ = loop.target
                                first_ = t_.elts[0] if isinstance(t_, ast.Tuple) and t_.elts else t_
                                if isinstance(first_, ast.Name):
                                    encl.add(first_.id)
                        label_vars |= encl
                        ok = isinstance(key, ast.Name) and key.id in encl
                        ob(f'{q}:per-label-config#{ks}', ok, f'config_map[{ast.unparse(key)}] with label loop variables {sorted(label_vars)}', q)
                        ks += 1
                # an encoded label must not be used to look the config up: rebinding the label variable before the lookup is checked by order
                for loop in [l for l in ast.walk(fn) if isinstance(l, ast.For)]:
                    seen_rebind = None
                    for s_ in ast.walk(loop):
                        if isinstance(s_, ast.Assign) and any(isinstance(t_, ast.Name) and t_.id in label_vars for t_ in s_.targets):
                            seen_rebind = s_.lineno if seen_rebind is None else min(seen_rebind, s_.lineno)
                    if seen_rebind is not None:
                        late = [x for x in ast.walk(loop) if isinstance(x, ast.Subscript) and isinstance(x.value, ast.Name) and x.value.id == 'config_map' and x.lineno > seen_rebind]
                        ob(f'{q}:config-looked-up-before-label-is-encoded', not late, f'label variable rebound at L{seen_rebind}; config_map[...] after it at {[x.lineno for x in late]}', q)
    rep = dict(name=task['name'], status='ok' if n >= 20 else 'checker-fault', items=items, failures=failures, evaluations=0, distinct=0, rule='',
               samples=[dict(obligation=i['name'], verdict=i['verdict']) for i in items[:3]], trusted=[], assumptions=[], wall_s=round(time.time() - t0, 2))
    if n < 20:
        rep['detail'] = f'only {n} config uses found in the store modules: the generator no longer matches the source layout'
    return rep


def run_map_sharing_sites(repo, task):
    """C01 / C02 / C09 site obligations read off the AST (G11): the label -> position map of one index object is handed to another index object
    only when BOTH are static (a grow-only owner would later add labels to a map a static index keeps consulting).  Every assignment
    `<target>._map = <source>._map` in the index modules must sit under a condition that tests `<source>.STATIC` and `self.STATIC` / `<target>.STATIC`."""
    import ast
    t0 = time.time()
    items, failures = [], []

    def ob(name, ok, note, fn, undecided=False):
        v = 'proved' if ok else ('undecided' if undecided else 'refuted')
        items.append(dict(name=name, fn=fn, kind='G11', verdict=v, backend='ast', ms=0.0, note=note))
        if v == 'refuted':
            failures.append(dict(key=f'G:{name}', what=f'{name}: {note}', nofail=True, replay=dict(site=name, note=note)))
    core = os.path.join(repo, 'static_frame/core')
    n = 0
    for mod in ('index.py', 'index_datetime.py', 'index_hierarchy.py', 'index_level.py', 'index_auto.py'):
        path = os.path.join(core, mod)
        if not os.path.exists(path):
            continue
        tree = ast.parse(open(path).read())
        parents = {}
        for node in ast.walk(tree):
            for ch in ast.iter_child_nodes(node):
                parents[id(ch)] = node
        k = 0
        for node in ast.walk(tree):
            if not (isinstance(node, ast.Assign) and len(node.targets) == 1 and isinstance(node.targets[0], ast.Attribute) and node.targets[0].attr == '_map'
                    and isinstance(node.value, ast.Attribute) and node.value.attr == '_map'):
                continue
            tgt, src = ast.unparse(node.targets[0].value), ast.unparse(node.value.value)
            if tgt == src:
                continue
            n += 1
            # conditions of all enclosing ifs (on the true branch)
            conds, cur = [], node
            fn = None
            while id(cur) in parents:
                par = parents[id(cur)]
                if isinstance(par, ast.If) and any(cur is b or any(cur is x for x in ast.walk(b)) for b in par.body):
                    conds.append(ast.unparse(par.test))
                if isinstance(par, (ast.FunctionDef, ast.AsyncFunctionDef)) and fn is None:
                    fn = par.name
                cur = par
            text = ' and '.join(conds)
            deep = fn in ('__deepcopy__', '__copy__', '__setstate__')      # a private copy of the map object, not a shared one
            ok = deep or (f'{src}.STATIC' in text and (f'{tgt}.STATIC' in text))
            ob(f'{mod}:{fn}:map-shared#{k}', ok, f'{tgt}._map = {src}._map under [{text}]', f'{mod}:{fn}')
            k += 1
    rep = dict(name=task['name'], status='ok' if n >= 1 else 'checker-fault', items=items, failures=failures, evaluations=0, distinct=0, rule='',
               samples=[dict(obligation=i['name'], verdict=i['verdict']) for i in items[:3]], trusted=[], assumptions=[], wall_s=round(time.time() - t0, 2))
    if n < 1:
        rep['detail'] = 'no map hand-over site found: the generator no longer matches the source layout'
    return rep


def run_pool_parity_sites(repo, task):
    """C18 / C19 site obligations read off the AST (G12): every Batch method that has a sequential branch (`if self._max_workers is None:` with a nested
    generator yielding `label, call_X((bundle))`) and a pooled branch (a nested `arg_gen` yielding a bundle, handed with `call_X` to `_apply_pool*`)
    applies THE SAME call helper to THE SAME bundle expression in both, pairs each result with the loop's own label variable, and records that very
    label for the pooled result.  Unrecognised forms are undecided, not refuted."""
    import ast
    t0 = time.time()
    items, failures = [], []

    def ob(name, ok, note, fn, undecided=False):
        v = 'proved' if ok else ('undecided' if undecided else 'refuted')
        items.append(dict(name=name, fn=fn, kind='G12', verdict=v, backend='ast', ms=0.0, note=note))
        if v == 'refuted':
            failures.append(dict(key=f'G:{name}', what=f'{name}: {note}', nofail=True, replay=dict(site=name, note=note)))
    path = os.path.join(repo, 'static_frame/core/batch.py')
    tree = ast.parse(open(path).read())
    n = 0
    for cls in [c for c in ast.walk(tree) if isinstance(c, ast.ClassDef) and c.name == 'Batch']:
        for fn in [f for f in cls.body if isinstance(f, ast.FunctionDef)]:
            inner = {f.name: f for f in ast.walk(fn) if isinstance(f, ast.FunctionDef) and f is not fn}
            if 'arg_gen' not in inner:
                continue
            q = f'batch.py:Batch.{fn.name}'
            n += 1
            seq = inner.get('gen')
            # sequential side: for label, frame in self._items: yield label, call_X((bundle))
            s_call = s_bundle = s_label = s_loop = None
            if seq is not None:
                for y in [x for x in ast.walk(seq) if isinstance(x, ast.Yield)]:
                    v = y.value
                    if isinstance(v, ast.Tuple) and len(v.elts) == 2 and isinstance(v.elts[1], ast.Call) and isinstance(v.elts[1].func, ast.Name) and len(v.elts[1].args) == 1:
                        s_label, s_call, s_bundle = ast.unparse(v.elts[0]), v.elts[1].func.id, ast.unparse(v.elts[1].args[0])
                for loop in [l for l in ast.walk(seq) if isinstance(l, ast.For)]:
                    s_loop = ast.unparse(loop.target)
            # pooled side
            p_bundle = p_loop = p_append = None
            ag = inner['arg_gen']
            for y in [x for x in ast.walk(ag) if isinstance(x, ast.Yield)]:
                p_bundle = ast.unparse(y.value)
            for loop in [l for l in ast.walk(ag) if isinstance(l, ast.For)]:
                p_loop = ast.unparse(loop.target)
            for c_ in [x for x in ast.walk(ag) if isinstance(x, ast.Call) and isinstance(x.func, ast.Attribute) and x.func.attr == 'append' and ast.unparse(x.func.value) == 'labels']:
                p_append = ast.unparse(c_.args[0]) if c_.args else None
            p_call = None
            for c_ in [x for x in ast.walk(fn) if isinstance(x, ast.Call) and isinstance(x.func, ast.Attribute) and x.func.attr.startswith('_apply_pool')]:
                if len(c_.args) >= 3 and isinstance(c_.args[2], ast.Name):
                    p_call = c_.args[2].id
                    ob(f'{q}:pool-receives-recorded-labels-and-arg_gen', ast.unparse(c_.args[0]) == 'labels' and ast.unparse(c_.args[1]) == 'arg_gen()',
                       f'{ast.unparse(c_)[:120]}', q)
            recognised = None not in (s_call, s_bundle, s_label, s_loop, p_bundle, p_loop, p_append, p_call)
            if not recognised:
                ob(f'{q}:pool-parity', False, f'form not recognised (sequential: {s_label}, {s_call}({s_bundle}) over {s_loop}; pooled: {p_call}, {p_bundle} over {p_loop}, labels.append({p_append}))', q, undecided=True)
                continue
            first = lambda t: t.strip('()').split(',')[0].strip()
            ob(f'{q}:same-call-helper', s_call == p_call, f'sequential applies {s_call}, the pool applies {p_call}', q)
            ob(f'{q}:same-bundle', s_bundle.strip('()').replace(' ', '') == p_bundle.strip('()').replace(' ', ''), f'sequential bundle ({s_bundle}) vs pooled bundle ({p_bundle})', q)
            ob(f'{q}:same-iteration', s_loop == p_loop and 'self._items' in ast.unparse(ag) and 'self._items' in ast.unparse(seq), f'loops over {s_loop} / {p_loop}', q)
            ob(f'{q}:result-paired-with-loop-label', s_label == first(s_loop) and p_append == first(p_loop), f'sequential yields under {s_label}, pool records {p_append}; loop variables {s_loop}', q)
    rep = dict(name=task['name'], status='ok' if n >= 4 else 'checker-fault', items=items, failures=failures, evaluations=0, distinct=0, rule='',
               samples=[dict(obligation=i['name'], verdict=i['verdict']) for i in items[:3]], trusted=[], assumptions=[], wall_s=round(time.time() - t0, 2))
    if n < 4:
        rep['detail'] = f'only {n} pooled Batch methods found: the generator no longer matches the source layout'
    return rep


def run_cache_guard_sites(repo, task):
    """C05 / C02 / C12 site obligations read off the AST (G13): an IndexHierarchy keeps a label table (`_blocks`) that is stale while `_recache` is set.
    Every read of `self._blocks` in a method of IndexHierarchy / IndexHierarchyGO is dominated by a test of `self._recache`:
      (a) a preceding `if self._recache:` whose body refreshes (`self._update_array_cache()`) or leaves the function (return / raise), or
      (b) it sits in the `else` branch of `if self._recache`, or under an `if` whose test has the conjunct `not self._recache`, or
      (c) the method assigns `self._blocks` before reading it (constructors, the refresh itself).
    A read with a guard that tests something else (e.g. `self._blocks is None`) is refuted; a method that calls another cache helper first is undecided."""
    import ast
    t0 = time.time()
    items, failures = [], []

    def ob(name, ok, note, fn, undecided=False):
        v = 'proved' if ok else ('undecided' if undecided else 'refuted')
        items.append(dict(name=name, fn=fn, kind='G13', verdict=v, backend='ast', ms=0.0, note=note))
        if v == 'refuted':
            failures.append(dict(key=f'G:{name}', what=f'{name}: {note}', nofail=True, replay=dict(site=name, note=note)))
    target = task.get('cache_target', 'hierarchy')
    modfile, classes, attrs, exempt, minimum = {
        'hierarchy': ('index_hierarchy.py', ('IndexHierarchy', 'IndexHierarchyGO'), ('_blocks',), (), 30),
        # a flat IndexGO keeps its label / position arrays stale while `_recache` is set (labels appended to `_labels_mutable` since the arrays were built)
        'index': ('index.py', ('Index', 'IndexGO', '_IndexGOMixin'), ('_labels', '_positions'), ('__setstate__', '_update_array_cache', '__init__'), 30),
    }[target]
    path = os.path.join(repo, 'static_frame/core', modfile)
    tree = ast.parse(open(path).read())
    n = 0

    def is_self_attr(node, attr, ctx=None):
        return isinstance(node, ast.Attribute) and node.attr in attrs and isinstance(node.value, ast.Name) and node.value.id == 'self' and (ctx is None or isinstance(node.ctx, ctx))

    def leaves_or_refreshes(body):
        last = body[-1] if body else None
        return any('self._update_array_cache()' in ast.unparse(s) for s in body) or isinstance(last, (ast.Return, ast.Raise))
    for cls in [c for c in tree.body if isinstance(c, ast.ClassDef) and c.name in classes]:
        for fn in [f for f in cls.body if isinstance(f, ast.FunctionDef) and f.name not in exempt]:
            parents = {}
            for node in ast.walk(fn):
                for ch in ast.iter_child_nodes(node):
                    parents[id(ch)] = node
            loads = sorted((x for x in ast.walk(fn) if is_self_attr(x, '_blocks', ast.Load)), key=lambda x: (x.lineno, x.col_offset))
            if not loads:
                continue
            stores = [x.lineno for x in ast.walk(fn) if is_self_attr(x, '_blocks', ast.Store)]
            q = f'{modfile}:{cls.name}.{fn.name}'
            guards = [s for s in ast.walk(fn) if isinstance(s, ast.If) and ast.unparse(s.test) == 'self._recache' and leaves_or_refreshes(s.body)]
            for k, ld in enumerate(loads):
                n += 1
                name = f'{q}:{ld.attr.strip("_")}-read#{k}'
                if stores and min(stores) < ld.lineno:
                    ob(name, True, f'L{ld.lineno}: the method assigns self.{ld.attr} first (L{min(stores)})', q)
                    continue
                # (a) a guard statement that precedes the read and is not nested in a branch the read is outside of
                ok = False
                for g in guards:
                    gpar = parents.get(id(g))
                    encl = ld
                    inside = False
                    while id(encl) in parents:
                        encl = parents[id(encl)]
                        if encl is gpar:
                            inside = True
                            break
                    if g.end_lineno < ld.lineno and (inside or gpar is fn):
                        ok = True
                # (b) lexically under a test of `not self._recache` / in the else of `if self._recache`
                cur = ld
                while not ok and id(cur) in parents:
                    par = parents[id(cur)]
                    if isinstance(par, ast.If):
                        t = ast.unparse(par.test)
                        in_body = any(cur is b or any(cur is x for x in ast.walk(b)) for b in par.body)
                        in_else = any(cur is b or any(cur is x for x in ast.walk(b)) for b in par.orelse)
                        conj = [ast.unparse(v) for v in par.test.values] if isinstance(par.test, ast.BoolOp) and isinstance(par.test.op, ast.And) else [t]
                        if (in_body and 'not self._recache' in conj) or (in_else and t == 'self._recache'):
                            ok = True
                    cur = par
                if ok:
                    ob(name, True, f'L{ld.lineno}: read under a test of self._recache', q)
                    continue
                helper = any(isinstance(c_, ast.Call) and isinstance(c_.func, ast.Attribute) and isinstance(c_.func.value, ast.Name) and c_.func.value.id == 'self'
                             and 'cache' in c_.func.attr and c_.lineno <= ld.lineno for c_ in ast.walk(fn)) and not guards
                other_guard = [ast.unparse(s.test) for s in ast.walk(fn) if isinstance(s, ast.If) and s.lineno < ld.lineno and any('_update_array_cache' in ast.unparse(b) for b in s.body)]
                ob(name, False, f'L{ld.lineno}: self.{ld.attr} is read without a preceding test of self._recache' + (f' (refresh guarded by {other_guard} instead)' if other_guard else ''), q,
                   undecided=helper and not other_guard)
    rep = dict(name=task['name'], status='ok' if n >= minimum else 'checker-fault', items=items, failures=failures, evaluations=0, distinct=0, rule='',
               samples=[dict(obligation=i['name'], verdict=i['verdict']) for i in items[:3]], trusted=[], assumptions=[], wall_s=round(time.time() - t0, 2))
    if n < minimum:
        rep['detail'] = f'only {n} reads of {attrs} found in {classes}: the generator no longer matches the source layout'
    return rep


def run_index_cache_guard_sites(repo, task):
    """G13 for the flat index classes (C02 / C04 / C09): every read of `self._labels` / `self._positions` is dominated by a test of `self._recache`"""
    return run_cache_guard_sites(repo, dict(task, cache_target='index'))


def run_store_growth_sites(repo, task):
    """C20 / C08 / C01 site obligations read off the AST (G14): a block store is grown in place (`.append` / `.extend`) only when it is the receiver's own store
    inside the grow-only growth methods (`FrameGO.__setitem__` / `.extend`, `TypeBlocks.append` / `.extend` themselves), or a store made in the same function by a
    call (`.copy()`, `TypeBlocks.from_blocks(...)`): never one obtained as `<other object>._blocks` -- growing that one changes the container it was taken from
    ("returns a new container ... the original is left exactly as it was")."""
    import ast
    t0 = time.time()
    items, failures = [], []

    def ob(name, ok, note, fn, undecided=False):
        v = 'proved' if ok else ('undecided' if undecided else 'refuted')
        items.append(dict(name=name, fn=fn, kind='G14', verdict=v, backend='ast', ms=0.0, note=note))
        if v == 'refuted':
            failures.append(dict(key=f'G:{name}', what=f'{name}: {note}', nofail=True, replay=dict(site=name, note=note)))
    core = os.path.join(repo, 'static_frame/core')
    n = 0
    OWN_GROWTH = {('FrameGO', '__setitem__'), ('FrameGO', 'extend'), ('FrameGO', 'extend_items'), ('TypeBlocks', 'append'), ('TypeBlocks', 'extend')}
    for mod in sorted(f for f in os.listdir(core) if f.endswith('.py')):
        tree = ast.parse(open(os.path.join(core, mod)).read())
        for cls in [c for c in ast.walk(tree) if isinstance(c, ast.ClassDef)]:
            for fn in [f for f in cls.body if isinstance(f, ast.FunctionDef)]:
                q = f'{mod}:{cls.name}.{fn.name}'
                binds = {}
                for a in ast.walk(fn):
                    if isinstance(a, ast.Assign) and len(a.targets) == 1 and isinstance(a.targets[0], ast.Name):
                        binds.setdefault(a.targets[0].id, []).append(a.value)
                k = 0
                for c_ in sorted((x for x in ast.walk(fn) if isinstance(x, ast.Call) and isinstance(x.func, ast.Attribute) and x.func.attr in ('append', 'extend')), key=lambda x: (x.lineno, x.col_offset)):
                    recv = c_.func.value
                    if isinstance(recv, ast.Attribute) and recv.attr == '_blocks' and cls.name != 'TypeBlocks':
                        n += 1
                        own = isinstance(recv.value, ast.Name) and recv.value.id == 'self' and (cls.name, fn.name) in OWN_GROWTH
                        ob(f'{q}:store-growth#{k}', own, f'L{c_.lineno}: {ast.unparse(c_)[:80]} ' + ('(the grow-only container grows its own store)' if own else '(grows the block store of an object in place)'), q)
                        k += 1
                    elif isinstance(recv, ast.Name) and recv.id in binds and any('_blocks' in ast.unparse(v) or 'TypeBlocks' in ast.unparse(v) for v in binds[recv.id]) \
                            and not any(isinstance(v, (ast.List, ast.ListComp)) or ast.unparse(v).startswith(('list(', '[')) or '.tolist()' in ast.unparse(v) or ast.unparse(v).startswith('range(') for v in binds[recv.id]):
                        n += 1
                        alias = [ast.unparse(v) for v in binds[recv.id] if isinstance(v, ast.Attribute) and v.attr == '_blocks']
                        ob(f'{q}:store-growth#{k}', not alias, f'L{c_.lineno}: {recv.id}.{c_.func.attr}(...) where {recv.id} is bound to {[ast.unparse(v)[:50] for v in binds[recv.id]]}'
                           + (f' -- {alias} is the live store of another object' if alias else ''), q)
                        k += 1
    # the raw TypeBlocks constructor keeps the lists it is given: a copy made with it must not be handed the receiver's own (grow-able) lists
    tb_tree = ast.parse(open(os.path.join(core, 'type_blocks.py')).read())
    for cls in [c for c in tb_tree.body if isinstance(c, ast.ClassDef) and c.name == 'TypeBlocks']:
        for fn in [f for f in cls.body if isinstance(f, ast.FunctionDef)]:
            k = 0
            for c_ in sorted((x for x in ast.walk(fn) if isinstance(x, ast.Call) and ast.unparse(x.func) in ('self.__class__', 'cls', 'TypeBlocks')), key=lambda x: x.lineno):
                for kw in c_.keywords:
                    if kw.arg in ('blocks', 'dtypes', 'index'):
                        n += 1
                        alias = isinstance(kw.value, ast.Attribute) and isinstance(kw.value.value, ast.Name) and kw.value.value.id == 'self' and kw.value.attr in ('_blocks', '_dtypes', '_index')
                        ob(f'type_blocks.py:TypeBlocks.{fn.name}:raw-ctor#{k}:{kw.arg}', not alias, f'L{c_.lineno}: {kw.arg}={ast.unparse(kw.value)[:50]}' + (' -- the new TypeBlocks shares the list the receiver grows' if alias else ''),
                           f'type_blocks.py:TypeBlocks.{fn.name}')
                k += 1
    rep = dict(name=task['name'], status='ok' if n >= 10 else 'checker-fault', items=items, failures=failures, evaluations=0, distinct=0, rule='',
               samples=[dict(obligation=i['name'], verdict=i['verdict']) for i in items[:3]], trusted=[], assumptions=[], wall_s=round(time.time() - t0, 2))
    if n < 10:
        rep['detail'] = f'only {n} block-store growth / raw-constructor sites found: the generator no longer matches the source layout'
    return rep


def run_length_cache_sites(repo, task):
    """C02 / C05 / C09 site obligations read off the AST (G15): an IndexLevel caches its leaf count (`_length`); growth makes the count of EVERY level on the path from
    the root to the new leaf stale.  In IndexLevelGO.append: every node visited by the descent loop is recorded (`edge_nodes[depth] = node`, unconditionally, before the
    descent step), and the method ends with a loop over ALL of `edge_nodes` that resets `node._length = None`; IndexLevelGO.extend ends by resetting `self._length`.
    (Two independent seeded changes narrowed this reset to 'the levels that grew'.)"""
    import ast
    t0 = time.time()
    items, failures = [], []

    def ob(name, ok, note, fn, undecided=False):
        v = 'proved' if ok else ('undecided' if undecided else 'refuted')
        items.append(dict(name=name, fn=fn, kind='G15', verdict=v, backend='ast', ms=0.0, note=note))
        if v == 'refuted':
            failures.append(dict(key=f'G:{name}', what=f'{name}: {note}', nofail=True, replay=dict(site=name, note=note)))
    tree = ast.parse(open(os.path.join(repo, 'static_frame/core/index_level.py')).read())
    n = 0
    for cls in [c for c in tree.body if isinstance(c, ast.ClassDef) and c.name == 'IndexLevelGO']:
        for fn in [f for f in cls.body if isinstance(f, ast.FunctionDef) and f.name in ('append', 'extend')]:
            q = f'index_level.py:IndexLevelGO.{fn.name}'
            n += 1
            if fn.name == 'extend':
                last = fn.body[-1]
                ob(f'{q}:length-reset', isinstance(last, ast.Assign) and ast.unparse(last) == 'self._length = None', f'last statement: {ast.unparse(last)[:60]}', q)
                continue
            # the closing reset loop
            last = fn.body[-1]
            ok_loop = (isinstance(last, ast.For) and isinstance(last.iter, ast.Name) and last.iter.id == 'edge_nodes' and isinstance(last.target, ast.Name)
                       and len(last.body) == 1 and ast.unparse(last.body[0]) == f'{last.target.id}._length = None')
            # refuted only when the resets that ARE there are recognisably narrower (single `X._length = None` assignments instead of the loop over every visited
            # level); any other shape is undecided (a refactoring, not an alarm)
            singles = [ast.unparse(x) for x in fn.body[-3:] if isinstance(x, ast.Assign) and ast.unparse(x).endswith('._length = None')]
            ob(f'{q}:length-reset-over-all-visited-levels', ok_loop, f'last statement: {ast.unparse(last)[:90]}' + (f'; resets only {singles}' if singles else ''), q,
               undecided=not ok_loop and not singles)
            # the descent loop records every node it visits, unconditionally, before stepping down
            descents = [l for l in fn.body if isinstance(l, ast.For) and any(isinstance(x, ast.Assign) and ast.unparse(x).startswith('node = node.targets[') for x in ast.walk(l))]
            if len(descents) != 1:
                ob(f'{q}:every-visited-level-recorded', False, f'{len(descents)} descent loops recognised', q, undecided=True)
                continue
            loop = descents[0]
            first = loop.body[0]
            rec = isinstance(first, ast.Assign) and len(first.targets) == 1 and isinstance(first.targets[0], ast.Subscript) and ast.unparse(first.targets[0].value) == 'edge_nodes' \
                and ast.unparse(first.value) == 'node' and isinstance(loop.target, ast.Tuple) and ast.unparse(first.targets[0].slice) == ast.unparse(loop.target.elts[0])
            ob(f'{q}:every-visited-level-recorded', rec, f'first statement of the descent loop: {ast.unparse(first)[:60]}', q)
            # nothing else writes edge_nodes or rebinds it after the descent
            others = [x for x in ast.walk(fn) if isinstance(x, ast.Assign) and any(isinstance(t_, ast.Subscript) and ast.unparse(t_.value) == 'edge_nodes' for t_ in x.targets) and x is not first]
            rebinds = [x for x in ast.walk(fn) if isinstance(x, ast.Assign) and any(isinstance(t_, ast.Name) and t_.id == 'edge_nodes' for t_ in x.targets)]
            ob(f'{q}:visited-levels-not-overwritten', not others and len(rebinds) == 1, f'{len(others)} other stores into edge_nodes, {len(rebinds)} bindings of edge_nodes', q)
    rep = dict(name=task['name'], status='ok' if n == 2 else 'checker-fault', items=items, failures=failures, evaluations=0, distinct=0, rule='',
               samples=[dict(obligation=i['name'], verdict=i['verdict']) for i in items[:3]], trusted=[], assumptions=[], wall_s=round(time.time() - t0, 2))
    if n != 2:
        rep['detail'] = 'IndexLevelGO.append / extend not found: the generator no longer matches the source layout'
    return rep


def run_reader_lockstep_sites(repo, task):
    """C17 site obligations read off the AST (G16): a lazy store reader (`X = self._store_reader(..., labels=<generator expression>, ...)`) is consumed by `next(X)` inside a
    loop over the requested items, under a condition on the item.  The k-th Frame the reader delivers is stored under the label of the k-th item for which `next` is
    called, so the reader's label stream and the consumer must be in lock-step: the generator expression iterates the SAME expression the loop iterates (one snapshot of
    the selection, not live state the loop mutates) and filters with the SAME predicate that guards `next(X)` (modulo the names of the loop variables).
    (An independent seeded change filtered the labels by a live view of the loaded flags, which the loop flips on eviction.)"""
    import ast
    t0 = time.time()
    items, failures = [], []

    def ob(name, ok, note, fn, undecided=False):
        v = 'proved' if ok else ('undecided' if undecided else 'refuted')
        items.append(dict(name=name, fn=fn, kind='G16', verdict=v, backend='ast', ms=0.0, note=note))
        if v == 'refuted':
            failures.append(dict(key=f'G:{name}', what=f'{name}: {note}', nofail=True, replay=dict(site=name, note=note)))

    class _Ren(ast.NodeTransformer):
        def __init__(self, m):
            self.m = m

        def visit_Name(self, n):
            return ast.copy_location(ast.Name(id=self.m.get(n.id, n.id), ctx=n.ctx), n)
    n_sites = 0
    core = os.path.join(repo, 'static_frame/core')
    for mod in sorted(os.listdir(core)):
        if not mod.endswith('.py'):
            continue
        src = open(os.path.join(core, mod)).read()
        if '_store_reader(' not in src:
            continue
        tree = ast.parse(src)
        for cls in [c for c in tree.body if isinstance(c, ast.ClassDef)]:
            for fn in [f for f in cls.body if isinstance(f, ast.FunctionDef)]:
                readers = [a for a in ast.walk(fn) if isinstance(a, ast.Assign) and len(a.targets) == 1 and isinstance(a.targets[0], ast.Name)
                           and isinstance(a.value, ast.Call) and isinstance(a.value.func, ast.Attribute) and a.value.func.attr == '_store_reader']
                for ra in readers:
                    rname = ra.targets[0].id
                    q = f'{mod}:{cls.name}.{fn.name}:{rname}'
                    n_sites += 1
                    labels = next((k.value for k in ra.value.keywords if k.arg == 'labels'), None)
                    loops = [l for l in ast.walk(fn) if isinstance(l, ast.For) and any(isinstance(c, ast.Call) and isinstance(c.func, ast.Name) and c.func.id == 'next'
                                                                                       and c.args and isinstance(c.args[0], ast.Name) and c.args[0].id == rname for c in ast.walk(l))]
                    if not isinstance(labels, ast.GeneratorExp) or len(labels.generators) != 1 or len(loops) != 1:
                        if loops:      # consumed item by item, but not in the recognised shape
                            ob(f'{q}:lockstep', False, f'labels= is {type(labels).__name__}, {len(loops)} consuming loops: shape not recognised', q, undecided=True)
                        else:
                            n_sites -= 1      # the reader is drained as a whole (no per-item pairing to check)
                        continue
                    gen, loop = labels.generators[0], loops[0]
                    guards = [i for i in ast.walk(loop) if isinstance(i, ast.If) and any(isinstance(c, ast.Call) and isinstance(c.func, ast.Name) and c.func.id == 'next' and c.args
                                                                                       and isinstance(c.args[0], ast.Name) and c.args[0].id == rname for s_ in i.body for c in ast.walk(s_))]
                    # the expression the loop iterates: directly, or a name bound next to the reader
                    it = loop.iter
                    it_srcs = [ast.unparse(it)]
                    if isinstance(it, ast.Name):
                        it_srcs = [ast.unparse(a.value) for a in ast.walk(fn) if isinstance(a, ast.Assign) and any(isinstance(t_, ast.Name) and t_.id == it.id for t_ in a.targets)]
                    same_iter = ast.unparse(gen.iter) in it_srcs
                    ob(f'{q}:same-snapshot', same_iter, f'labels iterate `{ast.unparse(gen.iter)}`, the consuming loop iterates {it_srcs}', q)
                    if len(guards) != 1 or len(gen.ifs) != 1:
                        ob(f'{q}:same-predicate', False, f'{len(guards)} guards of next({rname}), {len(gen.ifs)} filters of the labels', q, undecided=True)
                        continue
                    gt = [e.id for e in gen.target.elts] if isinstance(gen.target, ast.Tuple) and all(isinstance(e, ast.Name) for e in gen.target.elts) else None
                    lt = [e.id for e in loop.target.elts] if isinstance(loop.target, ast.Tuple) and all(isinstance(e, ast.Name) for e in loop.target.elts) else None
                    if gt is None or lt is None or len(gt) != len(lt):
                        ob(f'{q}:same-predicate', False, 'loop targets not plain name tuples of one length', q, undecided=not same_iter or True)
                        continue
                    import copy
                    ren = ast.unparse(_Ren(dict(zip(gt, lt))).visit(copy.deepcopy(gen.ifs[0])))
                    ob(f'{q}:same-predicate', ren == ast.unparse(guards[0].test), f'labels filtered by `{ren}` (loop names), next({rname}) guarded by `{ast.unparse(guards[0].test)}`', q)
                    # the guarded name is not rebound between the loop head and the guard (the guard speaks about the item as delivered)
                    gline = guards[0].lineno
                    reb = [a.lineno for a in ast.walk(loop) if isinstance(a, ast.Assign) and a.lineno < gline and any(isinstance(t_, ast.Name) and t_.id in lt for t_ in a.targets)]
                    ob(f'{q}:item-not-rebound-before-guard', not reb, f'rebinding of {lt} at lines {reb}', q)
    rep = dict(name=task['name'], status='ok' if n_sites >= 1 else 'checker-fault', items=items, failures=failures, evaluations=0, distinct=0, rule='',
               samples=[dict(obligation=i['name'], verdict=i['verdict']) for i in items[:3]], trusted=[], assumptions=[], wall_s=round(time.time() - t0, 2))
    if n_sites < 1:
        rep['detail'] = 'no item-wise consumed store reader found: the generator no longer matches the source layout'
    return rep
