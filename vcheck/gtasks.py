"""G tasks: mechanically generated site obligations (pyvc.typestate) as check tasks."""
from __future__ import annotations
import json
import os
import time

HERE = os.path.dirname(os.path.dirname(os.path.abspath(__file__)))


def _baseline():
    p = os.path.join(HERE, 'baseline_proved.json')
    return set(json.load(open(p)).get('G_sites', [])) if os.path.exists(p) else set()


def run_g1g2(repo, task):
    from pyvc.typestate import analyse
    t0 = time.time()
    kinds = task.get('kinds') or ('G1', 'G2')
    sites = [s for s in analyse(repo) if s.kind in kinds]
    base = _baseline()
    items, failures = [], []
    for s in sites:
        items.append(dict(name=s.sid, fn=f'{s.module}.py:{s.fn}', kind=s.kind, verdict=s.verdict, backend='typestate',
                          ms=0.0, note=f'L{s.lineno} tags={s.tags} {s.note}'))
        if s.verdict == 'refuted':
            failures.append(dict(key=f'G:{s.sid}',
                                 what=f'{s.kind} site obligation refuted at {s.module}.py:{s.lineno} in {s.fn}: {s.what} reaches the site with state {s.tags} '
                                      f'({"a writeable / caller-owned array would be stored or returned as container data" if s.kind == "G1" else "an in-place write reaches an array this activation did not allocate"})'
                                      + ('' if s.sid in base else ' [site not in the pinned baseline]'),
                                 nofail=True,
                                 replay=dict(site=s.sid, lineno=s.lineno, tags=s.tags, analysis='pyvc.typestate', note=s.note)))
    missing = sorted(b for b in base if b.split(':')[0] in kinds and b not in {s.sid for s in sites})
    rep = dict(name=task['name'], status='ok', items=items, failures=failures, evaluations=0, distinct=0,
               rule='', samples=[dict(site=i['name'], verdict=i['verdict'], state=i['note']) for i in items[:3]],
               trusted=['call tables of pyvc/typestate.py (NP_FRESH, METH_FRESH, NP_VIEW: assumed NumPy allocation/view contracts)',
                        'rely: arrays read from container fields (.values, ._labels, ._positions, ._blocks elements) are read-only (the invariant G1 establishes)'],
               assumptions=['aliasing: a state is attached to a name; freezing through one alias is not propagated to other aliases (conservative for G1)'],
               wall_s=round(time.time() - t0, 2))
    if missing:
        rep['status'] = 'undecided'
        rep['detail'] = f'{len(missing)} baseline sites no longer exist (spec drift: source refactored), e.g. {missing[:3]}'
    if not items:
        rep['status'] = 'checker-fault'
        rep['detail'] = 'zero G sites generated'
    return rep
