from .plan import register

register('C03', 'C03-layout', 'B', 'bounded.c03_layout:run', shards={'quick': 8, 'thorough': 16})
register('C01', 'G1G2-typestate', 'G', 'vcheck.gtasks:run_g1g2')
register('C16', 'C16-roundtrip', 'B', 'bounded.c16_roundtrip:run', shards={'quick': 8, 'thorough': 16})
register('C17', 'C17-store', 'B', 'bounded.c17_bus_store:run_store', shards={'quick': 2, 'thorough': 4})
register('C17', 'C17-history', 'B', 'bounded.c17_bus_store:run_history_phase', shards={'quick': 10, 'thorough': 16})
register('C17', 'C17-mutation', 'B', 'bounded.c17_bus_store:run_mutation', shards={'quick': 4, 'thorough': 8})
register('C18', 'C18-parallel', 'B', 'bounded.c18_parallel:run', shards={'quick': 8, 'thorough': 16})
register('C19', 'C19-quilt-batch', 'B', 'bounded.c19_quilt_batch:run', shards={'quick': 8, 'thorough': 16})
