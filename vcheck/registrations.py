from .plan import register

register('C03', 'C03-layout', 'B', 'bounded.c03_layout:run', shards={'quick': 8, 'thorough': 16})
