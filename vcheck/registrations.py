from .plan import register

register('C03', 'C03-layout', 'B', 'bounded.c03_layout:run', shards={'quick': 8, 'thorough': 16})
register('C01', 'G1G2-typestate', 'G', 'vcheck.gtasks:run_g1g2')
