"""./check driver: runs every deductive target (D), generated site obligation (G) and bounded
stand-in (B) that a property depends on, against the CURRENT working tree of the repo, decides
the verdict, writes replay files and the evidence file."""
from __future__ import annotations
import argparse
import hashlib
import json
import multiprocessing as mp
import os
import sys
import time
import traceback

HERE = os.path.dirname(os.path.dirname(os.path.abspath(__file__)))
REPO = os.environ.get('VERIF_REPO', '/repo')
if REPO != '/repo':
    sys.path.insert(0, REPO)       # scratch copy of the repo shadows the installed package


def _task(task):
    """executed in a worker process; returns a plain-data report"""
    kind = task['kind']
    try:
        if kind == 'D':
            from specs import load_all
            from pyvc.verify import verify_target
            C, R = load_all()
            c = C[task['key']]
            rep = verify_target(REPO, c['relpath'], c['qualname'], c, C, R, timeout_ms=task['timeout_ms'])
            rep['key'] = task['key']
            rep['kind'] = 'D'
            # replay every refuting model on the real function, here (same tree the VC came from)
            if rep['status'] == 'ok':
                from pyvc.replay import replay_model
                for ob in rep['obligations']:
                    if ob['verdict'] == 'refuted' and isinstance(ob.get('model'), dict) and 'error' not in ob['model']:
                        try:
                            ob['replay'] = replay_model(c, ob['model'])
                        except Exception:
                            ob['replay'] = dict(outcome='spec-error', detail=traceback.format_exc(limit=4))
                # an obligation the solver left open (typically: no model of the quantified dtype axioms) is still decided when the contract's own
                # witness family fails on the real function: a real failure is a violation whatever the solver said
                if c.get('witness_on_unknown') and c.get('concrete_inputs') and any(o['verdict'] == 'undecided' for o in rep['obligations']):
                    try:
                        w = replay_model(c, {})
                    except Exception:
                        w = dict(outcome='spec-error', detail=traceback.format_exc(limit=4))
                    for ob in rep['obligations']:
                        if ob['verdict'] == 'undecided':
                            ob['replay'] = w
            # bounded stand-in of this function: always in the thorough tier, and whenever the proof is incomplete
            incomplete = rep['status'] != 'ok' or rep.get('unsupported') or any(o['verdict'] != 'proved' for o in rep['obligations'])
            if incomplete or task.get('tier') == 'thorough' or c.get('always_enum'):
                from bounded import enums
                try:
                    rep['standin'] = enums.run_for(task['key'], c)
                except Exception:
                    rep['standin'] = None
                    rep.setdefault('notes', []).append('stand-in crashed: ' + traceback.format_exc(limit=3))
            # the contract's own witness family (concrete inputs that do not depend on a counter-model) is run on the real function on EVERY run:
            # a proof rests on assumed callee contracts, and a witness that fails the concrete contract shows such an assumption (or the code) wrong
            if c.get('witness_always') and c.get('concrete_inputs'):
                try:
                    import importlib
                    from pyvc.replay import run_contract, _safe_repr
                    from pyvc.concrete import view
                    mod, fn_ = c['concrete_inputs'].split(':')
                    cands = getattr(importlib.import_module(mod), fn_)({})
                    st = rep.get('standin') or dict(evaluations=0, distinct=0, failures=[], bound='', samples=[])
                    st.setdefault('failures', [])
                    for cand in cands:
                        r = run_contract(c, cand)
                        st['evaluations'] = st.get('evaluations', 0) + 1
                        st['distinct'] = st.get('distinct', 0) + 1
                        if r.get('outcome') == 'fail':
                            st['failures'].append(dict(inputs={k: _safe_repr(view(v, ())) for k, v in cand.items()}, failed=r.get('failed'), raised=r.get('raised')))
                    st['bound'] = ((st.get('bound') or '') + f' witness family of the contract: {len(cands)} inputs').strip()
                    rep['standin'] = st
                except Exception:
                    rep.setdefault('notes', []).append('witness family crashed: ' + traceback.format_exc(limit=3))
            return rep
        if kind in ('G', 'B'):
            from vcheck import plan
            fn = plan.resolve(task['name'])
            rep = fn(REPO, task)
            rep.setdefault('name', task['name'])
            rep['kind'] = kind
            return rep
    except Exception:
        return dict(kind=kind, key=task.get('key') or task.get('name'), name=task.get('name'), status='checker-fault',
                    detail=traceback.format_exc())
    return dict(kind=kind, status='checker-fault', detail='unknown task kind')


def load_known(pid):
    path = os.path.join(HERE, 'known_findings.jsonl')
    out = []
    if os.path.exists(path):
        for line in open(path):
            line = line.strip()
            if line and not line.startswith('#'):
                d = json.loads(line)
                if d.get('property') == pid:
                    out.append(d)
    return out


def write_replay(pid, name, payload):
    d = os.path.join(HERE, 'replays', pid)
    os.makedirs(d, exist_ok=True)
    safe = ''.join(ch if ch.isalnum() or ch in '-_.' else '_' for ch in name)[:120]
    path = os.path.join(d, safe + '.json')
    with open(path, 'w') as f:
        json.dump(payload, f, indent=1, default=repr)
    return os.path.relpath(path, HERE)


def main(argv=None):
    ap = argparse.ArgumentParser()
    ap.add_argument('pid')
    ap.add_argument('--tier', default=os.environ.get('VERIF_TIER', 'quick'), choices=['quick', 'thorough'])
    ap.add_argument('--replay')
    ap.add_argument('--jobs', type=int, default=int(os.environ.get('VERIF_JOBS', '16')))
    ap.add_argument('--verbose', '-v', action='store_true')
    args = ap.parse_args(argv)
    pid = args.pid
    seed = int(os.environ.get('VERIF_SEED', '0'))
    t0 = time.time()
    from vcheck import plan
    if args.replay:
        return plan.do_replay(pid, args.replay, REPO)
    from specs import load_all
    C, R = load_all()
    timeout_ms = 30000 if args.tier == "quick" else 120000
    tasks = []
    for key, c in C.items():
        if pid in c.get('props', []):
            tasks.append(dict(kind='D', key=key, timeout_ms=timeout_ms, tier=args.tier))
    for t in plan.tasks_for(pid, args.tier, seed):
        tasks.append(t)
    if not tasks:
        print(f'CHECKER-FAULT: no obligations are generated for {pid}')
        return 3
    # non-daemonic workers (stand-ins for C18 start their own process pools)
    from concurrent.futures import ProcessPoolExecutor
    with ProcessPoolExecutor(max_workers=min(args.jobs, max(1, len(tasks))), mp_context=mp.get_context('fork')) as pool:
        reports = list(pool.map(_task, tasks))
    from vcheck.decide import decide
    return decide(pid, args.tier, seed, reports, load_known(pid), time.time() - t0, write_replay, verbose=args.verbose)


if __name__ == '__main__':
    sys.exit(main())
